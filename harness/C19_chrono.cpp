//@ PROPERTY C19
//@ IR2C --store-hook
// C19: the operations of C15_chrono_parse.cpp re-decided with the store instrumentation (see C19_enum_utf.cpp for the argument): no store inside
// the operation window hits a mutable module-level object of the linked code, for every input within the bound.
#include "C15_chrono_parse.cpp"
// wide-string front end of the ISO parser (ParseIsoUtc transcodes to a temporary UTF-8 string first): same verdict and value as the
// 8-bit path on the same text, and - the C19 reading - no store to module-level state while doing so.  The text is the template
// 2024-02-29T23:59:59Z with its last four characters (":59Z") replaced by arbitrary bytes in[0..3] - the symbolic characters come after the
// temporary string has left its small-buffer storage, which keeps the encoding of the growth step concrete.
template <class Ch> static inline int prop_wide(const unsigned char* in, unsigned char* out) {
	char n[20] = {'2','0','2','4','-','0','2','-','2','9','T','2','3',':','5','9',':','5','9','Z'};
	n[19] = (char)in[0];
	Ch w[20]; for (int i = 0; i < 20; i++) w[i] = static_cast<Ch>(static_cast<unsigned char>(n[i]));
	chr::time_point<chr::system_clock, chr::seconds> tw{chr::seconds(4242)}, tn{chr::seconds(4242)};
	verif_symbolic_phase();
	int rw = vh::outcome([&] { Convert::Detail::To(std::basic_string_view<Ch>(w, 20), tw); });
	int rn = vh::outcome([&] { Convert::Detail::To(std::string_view(n, 20), tn); });
	out[0] = (unsigned char)rw; out[1] = (unsigned char)rn; vh::wr(out + 2, (int64_t)tw.time_since_epoch().count());
	if (in[0] >= 0x80) return rw == vh::INVALID_ARGUMENT && tw == tn;   // not ASCII: rejected on both paths
	return rw == rn && tw == tn;
}
VH_EXPORT int vp_h19_iso_u16(const unsigned char* in, unsigned char* out) { return prop_wide<char16_t>(in, out); }
VH_EXPORT int vp_h19_iso_u32(const unsigned char* in, unsigned char* out) { return prop_wide<char32_t>(in, out); }
//@ OBL {"name": "h19_iso_u16", "prop": "vp_h19_iso_u16", "in": 1, "out": 16, "unwind": 10, "unwind_fn": {"prop_wide|Encode|vp_h19_iso": 22}, "unwind_models": 48, "fs": 32, "backends": ["kissat", "default"], "cap_s": 900, "bounds": "20 UTF-16 code units: 2024-02-29T23:59:59Z with the last 2 characters arbitrary in 0..255 (more symbolic characters: solver memory > 12 GB)", "desc": "[C19 no-shared-write reading] To(u16string_view, time_point<seconds>&) == the 8-bit path on the same text; no store to shared state in the transcoding front end", "tier": "quick"}
//@ OBL {"name": "h19_iso_u32", "prop": "vp_h19_iso_u32", "in": 1, "out": 16, "unwind": 10, "unwind_fn": {"prop_wide|Encode|vp_h19_iso": 22}, "unwind_models": 48, "fs": 32, "backends": ["kissat", "default"], "cap_s": 900, "bounds": "20 UTF-32 code units, same template", "desc": "[C19 no-shared-write reading] To(u32string_view, time_point<seconds>&) == the 8-bit path", "tier": "quick"}
//@ OBL {"name": "h19_h15a_s_ns", "prop": "vp_h15a_s_ns", "in": 16, "out": 16, "unwind": 6, "backends": ["kissat", "default", "cvc5", "z3"], "cap_s": 900, "bounds": "every 64-bit count (multiplication-only direction)", "desc": "[C19 no-shared-write reading] SafeDurationCast seconds -> nanoseconds: exact or out_of_range, never wraps", "tier": "quick"}
//@ OBL {"name": "h19_h15d_s", "prop": "vp_h15d_s", "out": 16, "unwind": 8, "backends": ["kissat", "default", "cvc5", "z3"], "cap_s": 900, "in": 20, "bounds": "20-character buffers 20??-??-??T??:??:??? with the 13 remaining characters arbitrary (thorough: all 15 non-separator characters arbitrary)", "desc": "[C19 no-shared-write reading] To(string_view, time_point<seconds>&): calendar-valid -> exact reference instant; out-of-range fields (incl. Feb 29 of non-leap years) -> invalid_argument", "cassume": ["in[4]=='-' && in[7]=='-' && in[10]=='T' && in[13]==':' && in[16]==':'", "in[0]=='2' && in[1]=='0'"], "tier": "quick"}
//@ VEC * 0000000000000000000000000000000000000000
//@ VEC * 323032332d30322d32395430303a30303a30305a
//@ VEC * 323032342d30322d32395432333a35393a35395a
//@ VEC * 0550543130530000000000
//@ VEC * 082d50315754314d00
//@ VEC * 03393939000000000000000000
//@ VEC h19_iso_u16 5a
//@ VEC h19_iso_u16 00
//@ VEC h19_iso_u32 5a
//@ VEC h19_iso_u32 c3
