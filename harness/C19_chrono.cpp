//@ PROPERTY C19
//@ IR2C --store-hook
// C19: the operations of C15_chrono_parse.cpp re-decided with the store instrumentation (see C19_enum_utf.cpp for the argument): no store inside
// the operation window hits a mutable module-level object of the linked code, for every input within the bound.
#include "C15_chrono_parse.cpp"
//@ OBL {"name": "h19_h15a_s_ns", "prop": "vp_h15a_s_ns", "in": 16, "out": 16, "unwind": 6, "backends": ["kissat", "default", "cvc5", "z3"], "cap_s": 900, "bounds": "every 64-bit count (multiplication-only direction)", "desc": "[C19 no-shared-write reading] SafeDurationCast seconds -> nanoseconds: exact or out_of_range, never wraps", "tier": "quick"}
//@ OBL {"name": "h19_h15d_s", "prop": "vp_h15d_s", "out": 16, "unwind": 8, "backends": ["kissat", "default", "cvc5", "z3"], "cap_s": 900, "in": 20, "bounds": "20-character buffers 20??-??-??T??:??:??? with the 13 remaining characters arbitrary (thorough: all 15 non-separator characters arbitrary)", "desc": "[C19 no-shared-write reading] To(string_view, time_point<seconds>&): calendar-valid -> exact reference instant; out-of-range fields (incl. Feb 29 of non-leap years) -> invalid_argument", "cassume": ["in[4]=='-' && in[7]=='-' && in[10]=='T' && in[13]==':' && in[16]==':'", "in[0]=='2' && in[1]=='0'"], "tier": "quick"}
//@ VEC * 0000000000000000000000000000000000000000
//@ VEC * 323032332d30322d32395430303a30303a30305a
//@ VEC * 323032342d30322d32395432333a35393a35395a
//@ VEC * 0550543130530000000000
//@ VEC * 082d50315754314d00
//@ VEC * 03393939000000000000000000
