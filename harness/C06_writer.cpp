//@ PROPERTY C06
//@ LINK msgpack/msgpack_writers.cpp
// H06a-e: CMsgPackStringWriter / CMsgPackStreamWriter (src/msgpack/msgpack_writers.cpp) against a reference transcribed from
// the MessagePack specification (harness/ref/msgpack_spec.h): every scalar overload with a fully symbolic value, every length
// header with a fully symbolic size_t, the timestamp extension, and memory output == stream output byte for byte.
#include "vh.h"
#include "vh_stream.h"
#include "ref/msgpack_spec.h"
#include <string>
#include "msgpack/msgpack_writers.h"
using namespace BitSerializer;
using namespace BitSerializer::MsgPack::Detail;
using BitSerializer::Detail::CBinTimestamp;

static constexpr size_t CAP = 48;
struct Outs { unsigned char s[CAP]; size_t ns; unsigned char t[CAP]; size_t nt; int rcs, rct; };

static inline int ser_code(const SerializationException& e) { return vh::SER_BASE + static_cast<int>(e.GetErrorCode()); }
template <class F> static inline int outcome(F&& f) {
	try { f(); return vh::OK; }
	catch (const ParsingException&) { return vh::PARSING; }
	catch (const SerializationException& e) { return ser_code(e); }
	catch (const std::out_of_range&) { return vh::OUT_OF_RANGE; }
	catch (const std::invalid_argument&) { return vh::INVALID_ARGUMENT; }
	catch (const std::exception&) { return vh::STD_EXCEPTION; }
	catch (...) { return vh::NON_STD; }
}
// run `op(writer)` on both writer classes; collect bytes
template <class Op> static inline void both(Op&& op, Outs& o) {
	std::string str; str.reserve(CAP + 8);
	char sbuf[CAP];
	for (size_t i = 0; i < CAP; i++) sbuf[i] = 0;
	vh::MemOStream os(sbuf, CAP);
	CMsgPackStringWriter ws(str);
	CMsgPackStreamWriter wt(os);
	verif_nogrow(&str);
	verif_symbolic_phase();
	o.rcs = outcome([&] { op(static_cast<IMsgPackWriter&>(ws)); });
	o.rct = outcome([&] { op(static_cast<IMsgPackWriter&>(wt)); });
	o.ns = str.size() <= CAP ? str.size() : CAP;
	for (size_t i = 0; i < CAP; i++) o.s[i] = i < o.ns ? (unsigned char)str[i] : 0;
	o.nt = os.written() <= CAP ? os.written() : CAP;
	for (size_t i = 0; i < CAP; i++) o.t[i] = i < o.nt ? (unsigned char)sbuf[i] : 0;
	if (!os.good() && o.rct == vh::OK) o.rct = vh::STD_EXCEPTION + 100;   // stream failure without exception
}
static inline bool same_bytes(const Outs& o) {
	if (o.rcs != o.rct || o.ns != o.nt) return false;
	for (size_t i = 0; i < CAP; i++) if (o.s[i] != o.t[i]) return false;
	return true;
}
static inline void dump(const Outs& o, unsigned char* out) { out[0] = (unsigned char)o.rcs; out[1] = (unsigned char)o.ns; for (size_t i = 0; i < 12; i++) out[2 + i] = o.s[i]; out[14] = (unsigned char)o.rct; out[15] = (unsigned char)o.nt; }

// ---- H06a integers: exactly one Int object with the same value, in the smallest format that holds it
template <class T> static inline int prop_int(const unsigned char* in, unsigned char* out) {
	T v = vh::rd<T>(in);
	Outs o; both([&](IMsgPackWriter& w) { w.WriteValue(v); }, o); dump(o, out);
	if (o.rcs != vh::OK || !same_bytes(o)) return 0;
	mp::Obj d = mp::decode(o.s, o.ns);
	return d.kind == mp::Int && d.ival == (mp::i128)v && d.hdr == o.ns && o.ns == mp::min_int_len((mp::i128)v);
}
// ---- H06b bool / nil / float / double: exact bytes
static inline int prop_bool(const unsigned char* in, unsigned char* out) {
	bool v = vh::rd<bool>(in);
	Outs o; both([&](IMsgPackWriter& w) { w.WriteValue(v); }, o); dump(o, out);
	return o.rcs == vh::OK && same_bytes(o) && o.ns == 1 && o.s[0] == (v ? 0xC3 : 0xC2);
}
static inline int prop_nil(const unsigned char*, unsigned char* out) {
	Outs o; both([&](IMsgPackWriter& w) { w.WriteValue(nullptr); }, o); dump(o, out);
	return o.rcs == vh::OK && same_bytes(o) && o.ns == 1 && o.s[0] == 0xC0;
}
static inline int prop_float(const unsigned char* in, unsigned char* out) {
	float v = vh::rd<float>(in); uint32_t bits = vh::rd<uint32_t>(in);
	Outs o; both([&](IMsgPackWriter& w) { w.WriteValue(v); }, o); dump(o, out);
	mp::Obj d = mp::decode(o.s, o.ns);
	return o.rcs == vh::OK && same_bytes(o) && o.ns == 5 && d.kind == mp::Float32 && d.bits == bits;
}
static inline int prop_double(const unsigned char* in, unsigned char* out) {
	double v = vh::rd<double>(in); uint64_t bits = vh::rd<uint64_t>(in);
	Outs o; both([&](IMsgPackWriter& w) { w.WriteValue(v); }, o); dump(o, out);
	mp::Obj d = mp::decode(o.s, o.ns);
	return o.rcs == vh::OK && same_bytes(o) && o.ns == 9 && d.kind == mp::Float64 && d.bits == bits;
}
// ---- H06c length headers (no payload needed): smallest header, count preserved, > 2^32-1 rejected with OutOfRange
template <int K> static inline int prop_header(const unsigned char* in, unsigned char* out) {
	size_t n = vh::rd<uint64_t>(in);
	Outs o; both([&](IMsgPackWriter& w) { if (K == mp::Array) w.BeginArray(n); else if (K == mp::Map) w.BeginMap(n); else w.BeginBinary(n); }, o); dump(o, out);
	if (!same_bytes(o)) return 0;
	if (n > 0xFFFFFFFFull) return o.rcs == vh::SER_BASE + (int)SerializationErrorCode::OutOfRange && o.ns == 0;
	mp::Obj d = mp::decode(o.s, o.ns);
	return o.rcs == vh::OK && d.kind == K && d.len == n && d.hdr == o.ns && o.ns == mp::min_len_hdr(K, n);
}
// strings: symbolic length <= 40 with symbolic first/last payload bytes
static inline int prop_str(const unsigned char* in, unsigned char* out) {
	size_t n = in[0] <= 40 ? in[0] : 40;
	char payload[40]; for (size_t i = 0; i < 40; i++) payload[i] = (char)('a' + (i % 26));
	payload[0] = (char)in[1]; if (n) payload[n - 1] = (char)in[2];
	Outs o; both([&](IMsgPackWriter& w) { w.WriteValue(std::string_view(payload, n)); }, o); dump(o, out);
	if (o.rcs != vh::OK || !same_bytes(o)) return 0;
	mp::Obj d = mp::decode(o.s, o.ns);
	if (!(d.kind == mp::Str && d.len == n && d.hdr == mp::min_len_hdr(mp::Str, n) && o.ns == d.hdr + n)) return 0;
	for (size_t i = 0; i < n; i++) if (o.s[d.hdr + i] != (unsigned char)payload[i]) return 0;
	return 1;
}
// strings around the str8/str16 threshold (255/256): symbolic length 0..300, constant payload; header + total size + memory == stream
VH_EXPORT int vp_h06c_strlen(const unsigned char* in, unsigned char* out) {
	static constexpr size_t BIG = 320;
	size_t n = vh::rd<uint16_t>(in) % 301;
	static char payload[304]; for (size_t i = 0; i < 304; i++) payload[i] = 'x';
	std::string str; str.reserve(BIG);
	static char sbuf[BIG];
	vh::MemOStream os(sbuf, BIG);
	CMsgPackStringWriter ws(str); CMsgPackStreamWriter wt(os);
	verif_nogrow(&str);
	verif_symbolic_phase();
	int rcs = outcome([&] { ws.WriteValue(std::string_view(payload, n)); });
	int rct = outcome([&] { wt.WriteValue(std::string_view(payload, n)); });
	out[0] = (unsigned char)rcs; out[1] = (unsigned char)rct; vh::wr(out + 2, (uint16_t)str.size()); vh::wr(out + 4, (uint16_t)os.written());
	if (rcs != vh::OK || rct != vh::OK || !os.good()) return 0;
	size_t hdr = mp::min_len_hdr(mp::Str, n);
	if (str.size() != hdr + n || os.written() != str.size()) return 0;
	mp::Obj d = mp::decode(reinterpret_cast<const unsigned char*>(str.data()), str.size());
	if (!(d.kind == mp::Str && d.len == n && d.hdr == hdr)) return 0;
	for (size_t i = 0; i < 4; i++) if (i < hdr && (unsigned char)sbuf[i] != (unsigned char)str[i]) return 0;    // identical headers
	return 1;
}
// ---- H06d timestamp extension: spec layout, most compact form
static inline CBinTimestamp load_ts(const unsigned char* in) { return CBinTimestamp(vh::rd<int64_t>(in), vh::rd<int32_t>(in + 8)); }
VH_EXPORT int va_h06d_ts(const unsigned char* in) { CBinTimestamp t = load_ts(in); return t.Nanoseconds >= 0 && t.Nanoseconds <= 999999999; }
// known finding F5: the 96-bit layout is written seconds-first, the specification says nanoseconds-first
VH_EXPORT int vk_h06d_ts(const unsigned char* in) { CBinTimestamp t = load_ts(in); return (static_cast<uint64_t>(t.Seconds) >> 34) != 0 ? 1 : 0; }
VH_EXPORT int vp_h06d_ts(const unsigned char* in, unsigned char* out) {
	CBinTimestamp t = load_ts(in);
	Outs o; both([&](IMsgPackWriter& w) { w.WriteValue(t); }, o); dump(o, out);
	if (o.rcs != vh::OK || !same_bytes(o)) return 0;
	mp::Obj d = mp::decode(o.s, o.ns);
	if (d.kind != mp::Timestamp || d.ts_sec != t.Seconds || d.ts_nsec != (uint32_t)t.Nanoseconds || o.ns != d.hdr + d.len) return 0;
	// most compact of the three forms
	size_t want = ((static_cast<uint64_t>(t.Seconds) >> 34) != 0) ? 15 : ((t.Nanoseconds != 0 || (static_cast<uint64_t>(t.Seconds) >> 32) != 0) ? 10 : 6);
	return o.ns == want;
}
// Inputs in the F5 class (seconds need the 96-bit form): the ONLY tolerated deviation is the recorded one - the two fields of the
// 96-bit layout in the order seconds, nanoseconds.  Anything else (another form, other bytes) is still a violation.
VH_EXPORT int va_h06d_ts_f5(const unsigned char* in) { return va_h06d_ts(in) && vk_h06d_ts(in) == 1; }
VH_EXPORT int vp_h06d_ts_f5(const unsigned char* in, unsigned char* out) {
	CBinTimestamp t = load_ts(in);
	Outs o; both([&](IMsgPackWriter& w) { w.WriteValue(t); }, o); dump(o, out);
	if (o.rcs != vh::OK || !same_bytes(o) || o.ns != 15) return 0;
	if (o.s[0] != 0xC7 || o.s[1] != 12 || o.s[2] != 0xFF) return 0;
	return mp::be(o.s + 3, 8) == (uint64_t)t.Seconds && mp::be(o.s + 11, 4) == (uint32_t)t.Nanoseconds;
}
// time_point / duration -> CBinTimestamp: same instant, nanoseconds in 0..999999999 (or out_of_range)
template <class D> static inline int prop_to_ts(const unsigned char* in, unsigned char* out, bool asDuration) {
	int64_t cnt = vh::rd<int64_t>(in);
	CBinTimestamp ts(0x1111, 7);
	int rc = vh::outcome([&] { if (asDuration) BitSerializer::Detail::To(D(cnt), ts); else BitSerializer::Detail::To(std::chrono::time_point<std::chrono::system_clock, D>(D(cnt)), ts); });
	vh::wr(out, ts.Seconds); vh::wr(out + 8, ts.Nanoseconds); out[12] = (unsigned char)rc;
	// exact check without division: count == Seconds * K + q  (K units per second, 0 <= q < K) and Nanoseconds == q * (1e9 / K);
	// for periods of a second or longer: Seconds == count * (seconds per unit) and Nanoseconds == 0
	constexpr int64_t num = D::period::num, den = D::period::den;
	if constexpr (den == 1) {
		constexpr int64_t lim = INT64_MAX / num;
		bool fits = num == 1 || (cnt <= lim && cnt >= -lim);   // count * num representable in int64 (num = 60 / 3600: INT64_MIN is not a multiple)
		if (!fits) return rc == vh::OUT_OF_RANGE;
		return rc == vh::OK && ts.Nanoseconds == 0 && ts.Seconds == cnt * num;
	} else {
		if (rc != vh::OK) return 0;
		constexpr int64_t K = den, per = 1000000000 / den, lim = INT64_MAX / K;
		if (ts.Nanoseconds < 0 || ts.Nanoseconds > 999999999) return 0;
		if (ts.Seconds > lim || ts.Seconds < -lim - 1) return 0;
		int64_t q;     // |Seconds * K| <= INT64_MAX by the check above; 64-bit arithmetic keeps the formula close to the code's own
		if (__builtin_sub_overflow(cnt, ts.Seconds * K, &q)) return 0;
		return q >= 0 && q < K && static_cast<int64_t>(ts.Nanoseconds) == q * per;
	}
}
#define DEF_INT(name, T) VH_EXPORT int vp_h06a_##name(const unsigned char* in, unsigned char* out) { return prop_int<T>(in, out); }
DEF_INT(u8, uint8_t) DEF_INT(u16, uint16_t) DEF_INT(u32, uint32_t) DEF_INT(u64, uint64_t)
DEF_INT(i8, int8_t) DEF_INT(i16, int16_t) DEF_INT(i32, int32_t) DEF_INT(i64, int64_t)
VH_EXPORT int vp_h06b_bool(const unsigned char* in, unsigned char* out) { return prop_bool(in, out); }
VH_EXPORT int vp_h06b_nil(const unsigned char* in, unsigned char* out) { return prop_nil(in, out); }
VH_EXPORT int vp_h06b_float(const unsigned char* in, unsigned char* out) { return prop_float(in, out); }
VH_EXPORT int vp_h06b_double(const unsigned char* in, unsigned char* out) { return prop_double(in, out); }
VH_EXPORT int vp_h06c_array(const unsigned char* in, unsigned char* out) { return prop_header<mp::Array>(in, out); }
VH_EXPORT int vp_h06c_map(const unsigned char* in, unsigned char* out) { return prop_header<mp::Map>(in, out); }
VH_EXPORT int vp_h06c_bin(const unsigned char* in, unsigned char* out) { return prop_header<mp::Bin>(in, out); }
VH_EXPORT int vp_h06c_str(const unsigned char* in, unsigned char* out) { return prop_str(in, out); }
#define DEF_TS(name, D) \
	VH_EXPORT int vp_h06d_tp_##name(const unsigned char* in, unsigned char* out) { return prop_to_ts<D>(in, out, false); } \
	VH_EXPORT int vp_h06d_dur_##name(const unsigned char* in, unsigned char* out) { return prop_to_ts<D>(in, out, true); }
DEF_TS(ns, std::chrono::nanoseconds) DEF_TS(us, std::chrono::microseconds) DEF_TS(ms, std::chrono::milliseconds)
DEF_TS(s, std::chrono::seconds) DEF_TS(min, std::chrono::minutes) DEF_TS(h, std::chrono::hours)

//@ OBL {"name": "h06a_u8", "prop": "vp_h06a_u8", "in": 8, "out": 16, "unwind": 52, "bounds": "every uint8_t", "desc": "WriteValue(uint8_t): one Int object, same value, smallest format; stream == memory"}
//@ OBL {"name": "h06a_u16", "prop": "vp_h06a_u16", "in": 8, "out": 16, "unwind": 52, "bounds": "every uint16_t", "desc": "WriteValue(uint16_t)"}
//@ OBL {"name": "h06a_u32", "prop": "vp_h06a_u32", "in": 8, "out": 16, "unwind": 52, "bounds": "every uint32_t", "desc": "WriteValue(uint32_t)"}
//@ OBL {"name": "h06a_u64", "prop": "vp_h06a_u64", "in": 8, "out": 16, "unwind": 52, "bounds": "every uint64_t", "desc": "WriteValue(uint64_t)"}
//@ OBL {"name": "h06a_i8", "prop": "vp_h06a_i8", "in": 8, "out": 16, "unwind": 52, "bounds": "every int8_t", "desc": "WriteValue(int8_t)"}
//@ OBL {"name": "h06a_i16", "prop": "vp_h06a_i16", "in": 8, "out": 16, "unwind": 52, "bounds": "every int16_t", "desc": "WriteValue(int16_t)"}
//@ OBL {"name": "h06a_i32", "prop": "vp_h06a_i32", "in": 8, "out": 16, "unwind": 52, "bounds": "every int32_t", "desc": "WriteValue(int32_t)"}
//@ OBL {"name": "h06a_i64", "prop": "vp_h06a_i64", "in": 8, "out": 16, "unwind": 52, "bounds": "every int64_t", "desc": "WriteValue(int64_t)"}
//@ OBL {"name": "h06b_bool", "prop": "vp_h06b_bool", "in": 8, "out": 16, "unwind": 52, "bounds": "both values", "desc": "WriteValue(bool): C2/C3"}
//@ OBL {"name": "h06b_nil", "prop": "vp_h06b_nil", "in": 8, "out": 16, "unwind": 52, "bounds": "-", "desc": "WriteValue(nullptr): C0"}
//@ OBL {"name": "h06b_float", "prop": "vp_h06b_float", "in": 8, "out": 16, "unwind": 52, "bounds": "every 32-bit pattern incl. NaN payloads", "desc": "WriteValue(float): CA + big-endian bit pattern"}
//@ OBL {"name": "h06b_double", "prop": "vp_h06b_double", "in": 8, "out": 16, "unwind": 52, "bounds": "every 64-bit pattern", "desc": "WriteValue(double): CB + big-endian bit pattern"}
//@ OBL {"name": "h06c_array", "prop": "vp_h06c_array", "in": 8, "out": 16, "unwind": 52, "bounds": "every size_t count", "desc": "BeginArray: fixarray/array16/array32 thresholds, > 2^32-1 -> OutOfRange"}
//@ OBL {"name": "h06c_map", "prop": "vp_h06c_map", "in": 8, "out": 16, "unwind": 52, "bounds": "every size_t count", "desc": "BeginMap"}
//@ OBL {"name": "h06c_bin", "prop": "vp_h06c_bin", "in": 8, "out": 16, "unwind": 52, "bounds": "every size_t count", "desc": "BeginBinary: bin8/16/32"}
//@ OBL {"name": "h06c_str", "prop": "vp_h06c_str", "in": 8, "out": 16, "unwind": 52, "bounds": "string length 0..40 (fixstr/str8 threshold at 31/32), symbolic first and last byte", "desc": "WriteValue(string_view): header + verbatim payload"}
//@ OBL {"name": "h06c_strlen", "prop": "vp_h06c_strlen", "in": 8, "out": 16, "unwind": 12, "unwind_models": 310, "unwind_fn": {"^verif_stream_copy$": 310, "vp_h06c_strlen": 310}, "cap_s": 900, "bounds": "string length 0..300 (fixstr / str8 / str16 thresholds at 31/32 and 255/256), constant payload", "desc": "WriteValue(string_view): smallest header, total size, memory and stream output agree"}
//@ OBL {"name": "h06d_ts", "family": "h06d_ts", "prop": "vp_h06d_ts", "assume": "va_h06d_ts", "known": "vk_h06d_ts", "in": 12, "out": 16, "unwind": 52, "bounds": "every int64 seconds, nanoseconds 0..999999999", "desc": "WriteValue(CBinTimestamp): timestamp 32/64/96 per spec, most compact"}
//@ OBL {"name":"h06d_ts_f5","only_if_known":"F5","prop":"vp_h06d_ts_f5","assume":"va_h06d_ts_f5","in":12,"out":16,"unwind":52,"bounds":"every timestamp whose seconds need the 96-bit form","desc":"known finding F5 pinned down: ext8(12) type -1 with fields in the order seconds, nanoseconds - and nothing else"}
//@ OBL {"name": "h06d_tp_ns", "prop": "vp_h06d_tp_ns", "in": 8, "out": 16, "unwind": 4, "bounds": "|count| < 2^24 (division-by-constant kernel: the full 64-bit range does not close within the cap on any back end); thorough: 2^31", "desc": "To(time_point<ns>, CBinTimestamp&): same instant, 0 <= ns <= 999999999", "cassume": ["RD64(in,0) < (1LL<<24) && RD64(in,0) > -(1LL<<24)"], "backends": ["kissat", "default"]}
//@ OBL {"name": "h06d_tp_ns_T", "prop": "vp_h06d_tp_ns", "in": 8, "out": 16, "unwind": 4, "bounds": "|count| < 2^31", "desc": "To(time_point<ns>, CBinTimestamp&): same instant, 0 <= ns <= 999999999", "cassume": ["RD64(in,0) < (1LL<<31) && RD64(in,0) > -(1LL<<31)"], "backends": ["kissat", "default"], "tier": "thorough", "supersedes": "h06d_tp_ns", "cap_s": 1800}
//@ OBL {"name": "h06d_tp_us", "prop": "vp_h06d_tp_us", "in": 8, "out": 16, "unwind": 4, "bounds": "|count| < 2^24 (division-by-constant kernel: the full 64-bit range does not close within the cap on any back end); thorough: 2^31", "desc": "To(time_point<us>, CBinTimestamp&)", "cassume": ["RD64(in,0) < (1LL<<24) && RD64(in,0) > -(1LL<<24)"], "backends": ["kissat", "default"]}
//@ OBL {"name": "h06d_tp_us_T", "prop": "vp_h06d_tp_us", "in": 8, "out": 16, "unwind": 4, "bounds": "|count| < 2^31", "desc": "To(time_point<us>, CBinTimestamp&)", "cassume": ["RD64(in,0) < (1LL<<31) && RD64(in,0) > -(1LL<<31)"], "backends": ["kissat", "default"], "tier": "thorough", "supersedes": "h06d_tp_us", "cap_s": 1800}
//@ OBL {"name": "h06d_tp_ms", "prop": "vp_h06d_tp_ms", "in": 8, "out": 16, "unwind": 4, "bounds": "|count| < 2^24 (division-by-constant kernel: the full 64-bit range does not close within the cap on any back end); thorough: 2^31", "desc": "To(time_point<ms>, CBinTimestamp&)", "cassume": ["RD64(in,0) < (1LL<<24) && RD64(in,0) > -(1LL<<24)"], "backends": ["kissat", "default"]}
//@ OBL {"name": "h06d_tp_ms_T", "prop": "vp_h06d_tp_ms", "in": 8, "out": 16, "unwind": 4, "bounds": "|count| < 2^31", "desc": "To(time_point<ms>, CBinTimestamp&)", "cassume": ["RD64(in,0) < (1LL<<31) && RD64(in,0) > -(1LL<<31)"], "backends": ["kissat", "default"], "tier": "thorough", "supersedes": "h06d_tp_ms", "cap_s": 1800}
//@ OBL {"name": "h06d_tp_s", "prop": "vp_h06d_tp_s", "in": 8, "out": 16, "unwind": 4, "bounds": "every int64 count", "desc": "To(time_point<s>, CBinTimestamp&)"}
//@ OBL {"name": "h06d_tp_min", "prop": "vp_h06d_tp_min", "in": 8, "out": 16, "unwind": 4, "bounds": "every int64 count", "desc": "To(time_point<min>, CBinTimestamp&)"}
//@ OBL {"name": "h06d_tp_h", "prop": "vp_h06d_tp_h", "in": 8, "out": 16, "unwind": 4, "bounds": "every int64 count", "desc": "To(time_point<h>, CBinTimestamp&)"}
//@ OBL {"name": "h06d_dur_ns", "prop": "vp_h06d_dur_ns", "in": 8, "out": 16, "unwind": 4, "bounds": "|count| < 2^24 (division-by-constant kernel: the full 64-bit range does not close within the cap on any back end); thorough: 2^31", "desc": "To(duration<ns>, CBinTimestamp&)", "cassume": ["RD64(in,0) < (1LL<<24) && RD64(in,0) > -(1LL<<24)"], "backends": ["kissat", "default"]}
//@ OBL {"name": "h06d_dur_ns_T", "prop": "vp_h06d_dur_ns", "in": 8, "out": 16, "unwind": 4, "bounds": "|count| < 2^31", "desc": "To(duration<ns>, CBinTimestamp&)", "cassume": ["RD64(in,0) < (1LL<<31) && RD64(in,0) > -(1LL<<31)"], "backends": ["kissat", "default"], "tier": "thorough", "supersedes": "h06d_dur_ns", "cap_s": 1800}
//@ OBL {"name": "h06d_dur_ms", "prop": "vp_h06d_dur_ms", "in": 8, "out": 16, "unwind": 4, "bounds": "|count| < 2^24 (division-by-constant kernel: the full 64-bit range does not close within the cap on any back end); thorough: 2^31", "desc": "To(duration<ms>, CBinTimestamp&)", "cassume": ["RD64(in,0) < (1LL<<24) && RD64(in,0) > -(1LL<<24)"], "backends": ["kissat", "default"]}
//@ OBL {"name": "h06d_dur_ms_T", "prop": "vp_h06d_dur_ms", "in": 8, "out": 16, "unwind": 4, "bounds": "|count| < 2^31", "desc": "To(duration<ms>, CBinTimestamp&)", "cassume": ["RD64(in,0) < (1LL<<31) && RD64(in,0) > -(1LL<<31)"], "backends": ["kissat", "default"], "tier": "thorough", "supersedes": "h06d_dur_ms", "cap_s": 1800}
//@ OBL {"name": "h06d_dur_h", "prop": "vp_h06d_dur_h", "in": 8, "out": 16, "unwind": 4, "bounds": "every int64 count", "desc": "To(duration<h>, CBinTimestamp&)"}
// vectors from tests/unit_tests/msgpack_tests/msgpack_writer_tests.cpp
//@ VEC * 7f00000000000000
//@ VEC * 8000000000000000
//@ VEC * feca000000000000
//@ VEC * 30fe08ca00000000
//@ VEC * 3012feca3018feca
//@ VEC * 0080ffffffffffff
//@ VEC * 403020100000000004030201
//@ VEC * 08070605040302010c0b0a09
