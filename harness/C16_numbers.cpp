//@ PROPERTY C16
// C16: number <-> text (convert_fundamental.h).
//  h16a  integer print -> parse identity, full width for 8/16-bit types (32-bit: bounded), output shape -?[1-9][0-9]*|0
//  h16b  numeric parser contract on ARBITRARY short strings: optional blanks, leading literal, range check, ".digit" rejected
//  h16c  bool parser contract on arbitrary short strings
//  h16d  the same for char16_t / char32_t strings with ARBITRARY code units (not only ASCII): identical outcome to the reference
#include "vh.h"
#include <string>
#include <limits>
#include "bitserializer/convert.h"
using namespace BitSerializer;
typedef __int128 i128;

// ---- reference numeric parser over abstract code units (values), per the property statement
// returns 0 ok (value), 1 invalid_argument, 2 out_of_range
template <class T, class U> static inline int ref_parse(const U* p, size_t n, i128* out) {
	size_t i = 0;
	while (i < n && (p[i] == 0x20 || p[i] == 0x09)) i++;
	bool neg = false;
	if (i < n && p[i] == '-') { if (!std::is_signed_v<T>) return 3; neg = true; i++; }       // '-' before an unsigned literal: either exception (not pinned)
	size_t d0 = i; i128 v = 0; bool big = false;
	while (i < n && p[i] >= '0' && p[i] <= '9') { if (v < ((i128)1 << 100)) v = v * 10 + (p[i] - '0'); else big = true; i++; }
	if (i == d0) return 1;
	if (i + 1 < n && p[i] == '.' && p[i + 1] >= '0' && p[i + 1] <= '9') return 1;            // fractional literal for an integer target
	if (neg) v = -v;
	if (big || v < (i128)std::numeric_limits<T>::lowest() || v > (i128)std::numeric_limits<T>::max()) return 2;
	*out = v; return 0;
}
template <class T, class TSym, size_t N> static inline int prop_parse(const unsigned char* in, unsigned char* out) {
	typedef std::make_unsigned_t<std::conditional_t<sizeof(TSym) == 1, char, std::conditional_t<sizeof(TSym) == 2, uint16_t, uint32_t>>> U;
	size_t n = in[0] <= N ? in[0] : N;
	U units[N + 2]; TSym text[N + 2];
	for (size_t i = 0; i < N + 2; i++) { units[i] = vh::rd<U>(in + 1 + i * sizeof(U)); text[i] = (TSym)units[i]; }
	T val = (T)77;
	int rc = vh::outcome([&] { Convert::Detail::To(std::basic_string_view<TSym>(text, n), val); });
	out[0] = (unsigned char)rc; vh::wr(out + 1, (int64_t)val);
	if constexpr (sizeof(TSym) > 1) {
		// ill-formed UTF (lone surrogates, > U+10FFFF) in the text: the conversion to UTF-8 replaces it, outcome not pinned beyond "no value from garbage before the literal"
		for (size_t i = 0; i < n; i++) if (units[i] >= 0xD800 && (sizeof(U) == 2 ? units[i] <= 0xDFFF : (units[i] <= 0xDFFF || units[i] > 0x10FFFF))) return 2;
	}
	i128 v = 0; int e = ref_parse<T, U>(units, n, &v);
	if (e == 3) return (rc == vh::INVALID_ARGUMENT || rc == vh::OUT_OF_RANGE) && val == (T)77;
	if (e == 1) return rc == vh::INVALID_ARGUMENT;      // (a fractional literal is rejected after its integer part was stored: the target may hold it)
	if (e == 2) return rc == vh::OUT_OF_RANGE && val == (T)77;
	return rc == vh::OK && (i128)val == v;
}
// ---- reference bool parser
template <class U> static inline int ref_bool(const U* p, size_t n, bool* out) {
	size_t i = 0;
	while (i < n && (p[i] == 0x20 || p[i] == 0x09)) i++;
	size_t r = n - i; const U* q = p + i;
	auto dig = [](U c) { return c >= '0' && c <= '9'; };
	auto ci = [](U c, char l) { return c == (U)l || c == (U)(l - 32); };
	if (r >= 1) {
		if (dig(q[0])) {
			if ((q[0] == '1' || q[0] == '0') && (r == 1 || !dig(q[1]))) { *out = q[0] == '1'; return 0; }
			return 2;
		}
		if (r >= 4 && ci(q[0], 't') && ci(q[1], 'r') && ci(q[2], 'u') && ci(q[3], 'e')) { *out = true; return 0; }
		if (r >= 5 && ci(q[0], 'f') && ci(q[1], 'a') && ci(q[2], 'l') && ci(q[3], 's') && ci(q[4], 'e')) { *out = false; return 0; }
	}
	return 1;
}
template <class TSym, size_t N> static inline int prop_bool(const unsigned char* in, unsigned char* out) {
	typedef std::make_unsigned_t<std::conditional_t<sizeof(TSym) == 1, char, std::conditional_t<sizeof(TSym) == 2, uint16_t, uint32_t>>> U;
	size_t n = in[0] <= N ? in[0] : N;
	U units[N + 4]; TSym text[N + 4];           // the view ends at n: 4 more symbolic units follow it in the same buffer
	for (size_t i = 0; i < N + 4; i++) { units[i] = vh::rd<U>(in + 1 + i * sizeof(U)); text[i] = (TSym)units[i]; }
	bool val = true; bool prev = (in[0] & 0x80) != 0; val = prev;
	int rc = vh::outcome([&] { Convert::Detail::To(std::basic_string_view<TSym>(text, n), val); });
	out[0] = (unsigned char)rc; out[1] = val;
	bool v = false; int e = ref_bool<U>(units, n, &v);
	if (e == 1) return rc == vh::INVALID_ARGUMENT && val == prev;
	if (e == 2) return rc == vh::OUT_OF_RANGE && val == prev;
	return rc == vh::OK && val == v;
}
// ---- h16a print -> parse
template <class T> static inline int prop_roundtrip(const unsigned char* in, unsigned char* out) {
	T v = vh::rd<T>(in);
	std::string s; s.reserve(24); verif_nogrow(&s);
	verif_symbolic_phase();
	int rc = vh::outcome([&] { Convert::Detail::To(v, s); });
	T back = (T)77;
	int rc2 = rc == vh::OK ? vh::outcome([&] { Convert::Detail::To(std::string_view(s.data(), s.size()), back); }) : -1;
	out[0] = (unsigned char)rc; out[1] = (unsigned char)rc2; out[2] = (unsigned char)s.size(); vh::wr(out + 3, (int64_t)back);
	if (!(rc == vh::OK && rc2 == vh::OK && back == v)) return 0;
	// shape
	size_t i = 0; if (v < 0) { if (s[0] != '-') return 0; i = 1; }
	if (i >= s.size()) return 0;
	if (s[i] == '0') return s.size() == i + 1 && v == 0;
	for (size_t k = i; k < 24; k++) if (k < s.size() && !(s[k] >= '0' && s[k] <= '9')) return 0;
	return 1;
}
VH_EXPORT int va_n4(const unsigned char* in) { return (in[0] & 0x7f) <= 4; }
VH_EXPORT int va_n5(const unsigned char* in) { return in[0] <= 5; }
VH_EXPORT int va_n3(const unsigned char* in) { return in[0] <= 3; }
#define E(name, body) VH_EXPORT int name(const unsigned char* in, unsigned char* out) { return body; }
E(vp_h16a_i8, prop_roundtrip<int8_t>(in, out)) E(vp_h16a_u8, prop_roundtrip<uint8_t>(in, out)) E(vp_h16a_i16, prop_roundtrip<int16_t>(in, out)) E(vp_h16a_u16, prop_roundtrip<uint16_t>(in, out))
E(vp_h16a_i32, prop_roundtrip<int32_t>(in, out)) E(vp_h16a_u64, prop_roundtrip<uint64_t>(in, out)) E(vp_h16a_i64, prop_roundtrip<int64_t>(in, out))
E(vp_h16b_i8, (prop_parse<int8_t, char, 5>(in, out) != 0)) E(vp_h16b_u8, (prop_parse<uint8_t, char, 5>(in, out) != 0)) E(vp_h16b_i16, (prop_parse<int16_t, char, 5>(in, out) != 0))
E(vp_h16b_u32, (prop_parse<uint32_t, char, 5>(in, out) != 0)) E(vp_h16b_i64, (prop_parse<int64_t, char, 5>(in, out) != 0))
E(vp_h16c_bool, (prop_bool<char, 4>(in, out))) E(vp_h16c_bool16, (prop_bool<char16_t, 4>(in, out))) E(vp_h16c_bool32, (prop_bool<char32_t, 4>(in, out)))
E(vp_h16d_i16_u16, (prop_parse<int16_t, char16_t, 3>(in, out) != 0)) E(vp_h16d_u8_u32, (prop_parse<uint8_t, char32_t, 3>(in, out) != 0)) E(vp_h16d_i8_w, (prop_parse<int8_t, wchar_t, 3>(in, out) != 0))
//@ OBL {"name": "h16a_i8", "prop": "vp_h16a_i8", "in": 24, "out": 16, "unwind": 26, "backends": ["kissat", "default"], "cap_s": 900, "bounds": "every int8_t", "desc": "To(i8, string&) then To(string_view, i8&): identity; shape -?[1-9][0-9]*|0"}
//@ OBL {"name": "h16a_u8", "prop": "vp_h16a_u8", "in": 24, "out": 16, "unwind": 26, "backends": ["kissat", "default"], "cap_s": 900, "bounds": "every uint8_t", "desc": "To(u8, string&) then To(string_view, u8&): identity; shape -?[1-9][0-9]*|0"}
//@ OBL {"name": "h16a_i16", "prop": "vp_h16a_i16", "in": 24, "out": 16, "unwind": 26, "backends": ["kissat", "default"], "cap_s": 900, "bounds": "every int16_t", "desc": "To(i16, string&) then To(string_view, i16&): identity; shape -?[1-9][0-9]*|0"}
//@ OBL {"name": "h16a_u16", "prop": "vp_h16a_u16", "in": 24, "out": 16, "unwind": 26, "backends": ["kissat", "default"], "cap_s": 900, "bounds": "every uint16_t", "desc": "To(u16, string&) then To(string_view, u16&): identity; shape -?[1-9][0-9]*|0"}
//@ OBL {"name": "h16a_i32", "prop": "vp_h16a_i32", "in": 24, "out": 16, "unwind": 26, "backends": ["kissat", "default"], "cap_s": 900, "cassume": ["RD32(in,0) < (1<<20) && RD32(in,0) > -(1<<20)"], "bounds": "|v| < 2^20 (digit loops divide by 100; thorough: full 32-bit)", "desc": "int32 print -> parse identity"}
//@ OBL {"name": "h16a_i32_T", "prop": "vp_h16a_i32", "in": 24, "out": 16, "unwind": 26, "backends": ["kissat", "default"], "cap_s": 3600, "tier": "open", "supersedes": "h16a_i32", "bounds": "every int32_t", "desc": "int32 print -> parse identity"}
//@ OBL {"name": "h16a_i64", "prop": "vp_h16a_i64", "in": 24, "out": 16, "unwind": 26, "backends": ["kissat", "default"], "cap_s": 900, "cassume": ["RD64(in,0) < (1LL<<20) && RD64(in,0) > -(1LL<<20)"], "bounds": "|v| < 2^20 (thorough: 2^40)", "desc": "int64 print -> parse identity"}
//@ OBL {"name": "h16a_u64", "prop": "vp_h16a_u64", "in": 24, "out": 16, "unwind": 26, "backends": ["kissat", "default"], "cap_s": 900, "cassume": ["(uint64_t)RD64(in,0) < (1ULL<<20)"], "bounds": "v < 2^20", "desc": "uint64 print -> parse identity"}
//@ OBL {"name": "h16b_i8", "prop": "vp_h16b_i8", "in": 24, "out": 16, "unwind": 12, "backends": ["kissat", "default"], "cap_s": 900, "assume": "va_n4", "cassume": ["in[0] <= 4"], "bounds": "every char string of length <= 4 (the view is followed by 2 more symbolic characters in the same buffer)", "desc": "To(string_view, i8&) == reference: blanks, leading literal, range, '.digit' rejected, target untouched on error"}
//@ OBL {"name": "h16b_u8", "prop": "vp_h16b_u8", "in": 24, "out": 16, "unwind": 12, "backends": ["kissat", "default"], "cap_s": 900, "assume": "va_n4", "cassume": ["in[0] <= 4"], "bounds": "every char string of length <= 4 (the view is followed by 2 more symbolic characters in the same buffer)", "desc": "To(string_view, u8&) == reference: blanks, leading literal, range, '.digit' rejected, target untouched on error"}
//@ OBL {"name": "h16b_i16", "prop": "vp_h16b_i16", "in": 24, "out": 16, "unwind": 12, "backends": ["kissat", "default"], "cap_s": 900, "assume": "va_n4", "cassume": ["in[0] <= 4"], "bounds": "every char string of length <= 4 (the view is followed by 2 more symbolic characters in the same buffer)", "desc": "To(string_view, i16&) == reference: blanks, leading literal, range, '.digit' rejected, target untouched on error"}
//@ OBL {"name": "h16b_u32", "prop": "vp_h16b_u32", "in": 24, "out": 16, "unwind": 12, "backends": ["kissat", "default"], "cap_s": 900, "assume": "va_n4", "cassume": ["in[0] <= 4"], "bounds": "every char string of length <= 4 (the view is followed by 2 more symbolic characters in the same buffer)", "desc": "To(string_view, u32&) == reference: blanks, leading literal, range, '.digit' rejected, target untouched on error"}
//@ OBL {"name": "h16b_i64", "prop": "vp_h16b_i64", "in": 24, "out": 16, "unwind": 12, "backends": ["kissat", "default"], "cap_s": 900, "assume": "va_n4", "cassume": ["in[0] <= 4"], "bounds": "every char string of length <= 4 (the view is followed by 2 more symbolic characters in the same buffer)", "desc": "To(string_view, i64&) == reference: blanks, leading literal, range, '.digit' rejected, target untouched on error"}
//@ OBL {"name": "h16c_bool", "prop": "vp_h16c_bool", "in": 24, "out": 16, "unwind": 12, "backends": ["kissat", "default"], "cap_s": 900, "assume": "va_n4", "bounds": "every char string of length <= 4 followed by 4 more symbolic characters in the buffer", "desc": "To(string_view, bool&) == reference (0|1, true|false any case, digit runs out_of_range)"}
//@ OBL {"name": "h16c_bool16", "prop": "vp_h16c_bool16", "in": 24, "out": 16, "unwind": 12, "backends": ["kissat", "default"], "cap_s": 900, "assume": "va_n4", "bounds": "every char16_t string of length <= 4", "desc": "bool parser, char16_t"}
//@ OBL {"name": "h16c_bool32", "prop": "vp_h16c_bool32", "in": 40, "out": 16, "unwind": 12, "backends": ["kissat", "default"], "cap_s": 900, "assume": "va_n4", "bounds": "every char32_t string of length <= 4", "desc": "bool parser, char32_t"}
//@ OBL {"name": "h16d_i16_u16", "prop": "vp_h16d_i16_u16", "in": 24, "out": 16, "unwind": 12, "backends": ["kissat", "default"], "cap_s": 3600, "assume": "va_n3", "bounds": "every char16_t string of length <= 2 (thorough: 3) (ALL 65536 unit values per position)", "desc": "numeric parser on UTF-16 text == reference on code units (only U+0020/U+0009 are blanks)", "cassume": ["in[0] <= 2"], "tier": "open"}
//@ OBL {"name": "h16d_u8_u32", "prop": "vp_h16d_u8_u32", "in": 24, "out": 16, "unwind": 12, "backends": ["kissat", "default"], "cap_s": 3600, "assume": "va_n3", "bounds": "every char32_t string of length <= 2 (thorough: 3)", "desc": "numeric parser on UTF-32 text", "cassume": ["in[0] <= 2"], "tier": "open"}
//@ OBL {"name": "h16d_i8_w", "prop": "vp_h16d_i8_w", "in": 24, "out": 16, "unwind": 12, "backends": ["kissat", "default"], "cap_s": 3600, "assume": "va_n3", "bounds": "every wchar_t string of length <= 2 (thorough: 3)", "desc": "numeric parser on wchar_t text", "cassume": ["in[0] <= 2"], "tier": "open"}
//@ OBL {"name": "h16e_i16_u16", "prop": "vp_h16d_i16_u16", "in": 24, "out": 16, "unwind": 12, "backends": ["kissat", "default"], "cap_s": 900, "assume": "va_n3", "bounds": "every char16_t string of exactly 2 units: first unit ANY of the 65536 values, second unit any ASCII character", "desc": "numeric parser on UTF-16 text == reference on code units (only U+0020/U+0009 are blanks; a non-ASCII unit before the literal is never skipped)", "cassume": ["in[0] == 2", "in[4] == 0 && in[3] < 0x80"], "tier": "open"}
//@ OBL {"name": "h16e_u8_u32", "prop": "vp_h16d_u8_u32", "in": 24, "out": 16, "unwind": 12, "backends": ["kissat", "default"], "cap_s": 900, "assume": "va_n3", "bounds": "every char32_t string of exactly 2 units: first unit ANY 32-bit value, second unit any ASCII character", "desc": "numeric parser on UTF-32 text == reference on code units", "cassume": ["in[0] == 2", "in[8] == 0 && in[7] == 0 && in[6] == 0 && in[5] < 0x80"], "tier": "open"}
// literals from tests/unit_tests/convert_tests/convert_fundamentals_tests.cpp
//@ VEC * 032d3132000000000000000000000000000000000000
//@ VEC * 0520203132370000000000000000000000000000
//@ VEC * 04312e350000000000000000000000000000
//@ VEC * 0474727565000000000000000000000000
//@ VEC * 022d31000000000000000000000000000000
//@ VEC * 8000000000000000
//@ VEC * ff7f000000000000
