//@ PROPERTY C10
//@ LINK msgpack/msgpack_readers.cpp common/binary_stream_reader.cpp
//@ MODELDEF VERIF_STRLEN_ZERO
//@ OVERRIDE _ZN13BitSerializer7Convert6Detail2ToImcSaIcELi0EEEvRKT_RNSt7__cxx1112basic_stringIT0_St11char_traitsIS9_ET1_EE
// H10e: memory reader vs stream reader (the two hand-duplicated MsgPack readers of msgpack_readers.cpp) on complete scalar values
// with a CONCRETE format byte and an arbitrary payload: same outcome category, same loaded value, same position, both policies
// symbolic.  (The general differential on arbitrary bytes - symbolic format byte - has no verdict: harness/disabled/C10_mem_vs_stream.cpp.)
// in[0] = policy bits, in[1..9) = payload bytes, in[9..17) = previous value of the target.
#include "mp_read_ops.h"
using namespace mpo;
template <unsigned FMT, size_t PAYLOAD, class T> static inline int prop_fmt(const unsigned char* in, unsigned char* out) {
	unsigned char doc[9]; doc[0] = (unsigned char)FMT; for (size_t i = 0; i < 8; i++) doc[1 + i] = in[1 + i];
	In v; v.n = 1 + PAYLOAD; v.pol = in[0] & 3; v.b = doc; v.prev = in + 9;
	SerializationOptions opt = options(v.pol);
	vh::MemIStream is(reinterpret_cast<const char*>(doc), v.n);
	CMsgPackStringReader rs(std::string_view(reinterpret_cast<const char*>(doc), v.n), opt);
	CMsgPackStreamReader rt(is, opt);
	verif_symbolic_phase();
	Res a, b; do_scalar<CMsgPackStringReader, T>(rs, v, a); do_scalar<CMsgPackStreamReader, T>(rt, v, b);
	out[0] = (unsigned char)a.rc; out[1] = (unsigned char)a.pos; out[2] = (unsigned char)b.rc; out[3] = (unsigned char)b.pos; for (int i = 0; i < 8; i++) { out[4 + i] = a.val[i]; out[12 + i] = b.val[i]; }
	if (a.rc != b.rc) return 0;
	if (a.rc != vh::OK && a.rc != vh::NOT_LOADED) return 1;
	if (a.pos != b.pos) return 0;
	for (int i = 0; i < 16; i++) if (a.val[i] != b.val[i]) return 0;
	return 1;
}
#define E(name, FMT, P, T) VH_EXPORT int vp_h10e_##name(const unsigned char* in, unsigned char* out) { return prop_fmt<FMT, P, T>(in, out); }
E(f64_f32, 0xcb, 8, float) E(f64_f64, 0xcb, 8, double) E(f32_f32, 0xca, 4, float) E(f32_f64, 0xca, 4, double)
E(u64_i32, 0xcf, 8, int32_t) E(i64_u8, 0xd3, 8, uint8_t) E(u16_i8, 0xcd, 2, int8_t) E(i32_u64, 0xd2, 4, uint64_t) E(i8_u16, 0xd0, 1, uint16_t) E(u32_i64, 0xce, 4, int64_t)
//@ OBL {"name": "h10e_f64_f32", "prop": "vp_h10e_f64_f32", "in": 17, "out": 24, "unwind": 12, "unwind_models": 12, "unwind_fn": {"^verif_stream_copy$": 12, "SkipValueImpl": 1}, "recursion": {"SkipValueImpl": 0}, "fs": 32, "cap_s": 900, "backends": ["default", "kissat"], "bounds": "concrete format byte, every payload, both policies, every previous target value", "desc": "CMsgPackStreamReader == CMsgPackStringReader for float 64 -> float (overflow policy)"}
//@ OBL {"name": "h10e_f64_f64", "prop": "vp_h10e_f64_f64", "in": 17, "out": 24, "unwind": 12, "unwind_models": 12, "unwind_fn": {"^verif_stream_copy$": 12, "SkipValueImpl": 1}, "recursion": {"SkipValueImpl": 0}, "fs": 32, "cap_s": 900, "backends": ["default", "kissat"], "bounds": "concrete format byte, every payload, both policies, every previous target value", "desc": "CMsgPackStreamReader == CMsgPackStringReader for float 64 -> double"}
//@ OBL {"name": "h10e_f32_f32", "prop": "vp_h10e_f32_f32", "in": 17, "out": 24, "unwind": 12, "unwind_models": 12, "unwind_fn": {"^verif_stream_copy$": 12, "SkipValueImpl": 1}, "recursion": {"SkipValueImpl": 0}, "fs": 32, "cap_s": 900, "backends": ["default", "kissat"], "bounds": "concrete format byte, every payload, both policies, every previous target value", "desc": "CMsgPackStreamReader == CMsgPackStringReader for float 32 -> float"}
//@ OBL {"name": "h10e_f32_f64", "prop": "vp_h10e_f32_f64", "in": 17, "out": 24, "unwind": 12, "unwind_models": 12, "unwind_fn": {"^verif_stream_copy$": 12, "SkipValueImpl": 1}, "recursion": {"SkipValueImpl": 0}, "fs": 32, "cap_s": 900, "backends": ["default", "kissat"], "bounds": "concrete format byte, every payload, both policies, every previous target value", "desc": "CMsgPackStreamReader == CMsgPackStringReader for float 32 -> double"}
//@ OBL {"name": "h10e_u64_i32", "prop": "vp_h10e_u64_i32", "in": 17, "out": 24, "unwind": 12, "unwind_models": 12, "unwind_fn": {"^verif_stream_copy$": 12, "SkipValueImpl": 1}, "recursion": {"SkipValueImpl": 0}, "fs": 32, "cap_s": 900, "backends": ["default", "kissat"], "bounds": "concrete format byte, every payload, both policies, every previous target value", "desc": "CMsgPackStreamReader == CMsgPackStringReader for uint 64 -> int32_t"}
//@ OBL {"name": "h10e_i64_u8", "prop": "vp_h10e_i64_u8", "in": 17, "out": 24, "unwind": 12, "unwind_models": 12, "unwind_fn": {"^verif_stream_copy$": 12, "SkipValueImpl": 1}, "recursion": {"SkipValueImpl": 0}, "fs": 32, "cap_s": 900, "backends": ["default", "kissat"], "bounds": "concrete format byte, every payload, both policies, every previous target value", "desc": "CMsgPackStreamReader == CMsgPackStringReader for int 64 -> uint8_t"}
//@ OBL {"name": "h10e_u16_i8", "prop": "vp_h10e_u16_i8", "in": 17, "out": 24, "unwind": 12, "unwind_models": 12, "unwind_fn": {"^verif_stream_copy$": 12, "SkipValueImpl": 1}, "recursion": {"SkipValueImpl": 0}, "fs": 32, "cap_s": 900, "backends": ["default", "kissat"], "bounds": "concrete format byte, every payload, both policies, every previous target value", "desc": "CMsgPackStreamReader == CMsgPackStringReader for uint 16 -> int8_t"}
//@ OBL {"name": "h10e_i32_u64", "prop": "vp_h10e_i32_u64", "in": 17, "out": 24, "unwind": 12, "unwind_models": 12, "unwind_fn": {"^verif_stream_copy$": 12, "SkipValueImpl": 1}, "recursion": {"SkipValueImpl": 0}, "fs": 32, "cap_s": 900, "backends": ["default", "kissat"], "bounds": "concrete format byte, every payload, both policies, every previous target value", "desc": "CMsgPackStreamReader == CMsgPackStringReader for int 32 -> uint64_t"}
//@ OBL {"name": "h10e_i8_u16", "prop": "vp_h10e_i8_u16", "in": 17, "out": 24, "unwind": 12, "unwind_models": 12, "unwind_fn": {"^verif_stream_copy$": 12, "SkipValueImpl": 1}, "recursion": {"SkipValueImpl": 0}, "fs": 32, "cap_s": 900, "backends": ["default", "kissat"], "bounds": "concrete format byte, every payload, both policies, every previous target value", "desc": "CMsgPackStreamReader == CMsgPackStringReader for int 8 -> uint16_t"}
//@ OBL {"name": "h10e_u32_i64", "prop": "vp_h10e_u32_i64", "in": 17, "out": 24, "unwind": 12, "unwind_models": 12, "unwind_fn": {"^verif_stream_copy$": 12, "SkipValueImpl": 1}, "recursion": {"SkipValueImpl": 0}, "fs": 32, "cap_s": 900, "backends": ["default", "kissat"], "bounds": "concrete format byte, every payload, both policies, every previous target value", "desc": "CMsgPackStreamReader == CMsgPackStringReader for uint 32 -> int64_t"}
//@ VEC * 007fefffffffffffff0000000000000000
//@ VEC * 0300000000000000011122334455667788
