//@ PROPERTY C10
//@ LINK msgpack/msgpack_readers.cpp common/binary_stream_reader.cpp
//@ CXXFLAGS -DBITSERIALIZER_VERIF_CHUNK_SIZE=16
//@ MODELDEF VERIF_STRLEN_ZERO
//@ OVERRIDE _ZN13BitSerializer7Convert6Detail2ToImcSaIcELi0EEEvRKT_RNSt7__cxx1112basic_stringIT0_St11char_traitsIS9_ET1_EE
// H10a: the two hand-duplicated MsgPack readers (CMsgPackStringReader / CMsgPackStreamReader, msgpack_readers.cpp) must agree
// on EVERY input: same outcome category, same loaded value, same position - for every read operation.
// in[0] = n (<= 9), in[1] = policy bits, in[2..11) = bytes, in[12..20) = previous target value.
#include "mp_read_ops.h"
using namespace mpo;
static inline bool is_container_byte(unsigned b) { return (b >= 0x80 && b <= 0x9f) || (b >= 0xdc && b <= 0xdf); }
// scalar / header operations: the offered value is not an array/map (whole-container skipping is compared by h10a_skip with its own bound)
VH_EXPORT int va_h10(const unsigned char* in) { In v = load(in); return in[0] <= N && !(v.n && is_container_byte(v.b[0])); }
static inline bool same(const Res& a, const Res& b, bool strict_pos) {
	if (a.rc != b.rc) return false;
	if (a.rc != vh::OK && a.rc != vh::NOT_LOADED) return true;      // both threw the same category: position unspecified
	if (strict_pos && a.pos != b.pos) return false;
	for (int i = 0; i < 16; i++) if (a.val[i] != b.val[i]) return false;
	return true;
}
template <class T> static inline int prop_scalar(const unsigned char* in, unsigned char* out) {
	In v = load(in);
	SerializationOptions opt = options(v.pol);
	vh::MemIStream is(reinterpret_cast<const char*>(v.b), v.n);
	CMsgPackStringReader rs(std::string_view(reinterpret_cast<const char*>(v.b), v.n), opt);
	CMsgPackStreamReader rt(is, opt);
	verif_symbolic_phase();
	Res a, b; do_scalar<CMsgPackStringReader, T>(rs, v, a); do_scalar<CMsgPackStreamReader, T>(rt, v, b);
	out[0] = (unsigned char)a.rc; out[1] = (unsigned char)a.pos; out[2] = (unsigned char)b.rc; out[3] = (unsigned char)b.pos; for (int i = 0; i < 8; i++) { out[4 + i] = a.val[i]; out[12 + i] = b.val[i]; }
	return same(a, b, true);
}
template <Op O> static inline int prop_other(const unsigned char* in, unsigned char* out) {
	In v = load(in);
	SerializationOptions opt = options(v.pol);
	vh::MemIStream is(reinterpret_cast<const char*>(v.b), v.n);
	CMsgPackStringReader rs(std::string_view(reinterpret_cast<const char*>(v.b), v.n), opt);
	CMsgPackStreamReader rt(is, opt);
	verif_symbolic_phase();
	Res a, b; do_other(rs, O, a); do_other(rt, O, b);
	out[0] = (unsigned char)a.rc; out[1] = (unsigned char)a.pos; out[2] = (unsigned char)b.rc; out[3] = (unsigned char)b.pos; for (int i = 0; i < 8; i++) { out[4 + i] = a.val[i]; out[12 + i] = b.val[i]; }
	return same(a, b, true);
}
#define DEF(name, T) VH_EXPORT int vp_h10a_##name(const unsigned char* in, unsigned char* out) { return prop_scalar<T>(in, out); }
DEF(bool, bool) DEF(char, char) DEF(u8, uint8_t) DEF(u16, uint16_t) DEF(u32, uint32_t) DEF(u64, uint64_t)
DEF(i8, int8_t) DEF(i16, int16_t) DEF(i32, int32_t) DEF(i64, int64_t) DEF(f32, float) DEF(f64, double) DEF(nil, std::nullptr_t)
#define DEFO(name, O) VH_EXPORT int vp_h10a_##name(const unsigned char* in, unsigned char* out) { return prop_other<O>(in, out); }
DEFO(str, OpStr) DEFO(array, OpArray) DEFO(map, OpMap) DEFO(bin, OpBin) DEFO(ts, OpTs) DEFO(type, OpType)
//@ OBL {"name": "h10a_bool", "family": "h10a", "prop": "vp_h10a_bool", "assume": "va_h10", "in": 20, "out": 24, "unwind": 12, "unwind_fn": {"SkipValueImpl": 1, "^verif_stream_copy$": 12, "^verif_memmove$": 12}, "recursion": {"SkipValueImpl": 0}, "bounds": "every byte string of length <= 9 whose first byte is not an array/map header, both policies symbolic", "desc": "string reader vs stream reader, operation bool: same outcome category, value and position", "cassume": ["in[0] <= 9"], "fs": 32, "unwind_models": 16}
//@ OBL {"name": "h10a_char", "family": "h10a", "prop": "vp_h10a_char", "assume": "va_h10", "in": 20, "out": 24, "unwind": 12, "unwind_fn": {"SkipValueImpl": 1, "^verif_stream_copy$": 12, "^verif_memmove$": 12}, "recursion": {"SkipValueImpl": 0}, "bounds": "every byte string of length <= 9 whose first byte is not an array/map header, both policies symbolic", "desc": "string reader vs stream reader, operation char: same outcome category, value and position", "cassume": ["in[0] <= 9"], "fs": 32, "unwind_models": 16}
//@ OBL {"name": "h10a_u8", "family": "h10a", "prop": "vp_h10a_u8", "assume": "va_h10", "in": 20, "out": 24, "unwind": 12, "unwind_fn": {"SkipValueImpl": 1, "^verif_stream_copy$": 12, "^verif_memmove$": 12}, "recursion": {"SkipValueImpl": 0}, "bounds": "every byte string of length <= 9 whose first byte is not an array/map header, both policies symbolic", "desc": "string reader vs stream reader, operation u8: same outcome category, value and position", "cassume": ["in[0] <= 9"], "fs": 32, "unwind_models": 16}
//@ OBL {"name": "h10a_u16", "family": "h10a", "prop": "vp_h10a_u16", "assume": "va_h10", "in": 20, "out": 24, "unwind": 12, "unwind_fn": {"SkipValueImpl": 1, "^verif_stream_copy$": 12, "^verif_memmove$": 12}, "recursion": {"SkipValueImpl": 0}, "bounds": "every byte string of length <= 9 whose first byte is not an array/map header, both policies symbolic", "desc": "string reader vs stream reader, operation u16: same outcome category, value and position", "cassume": ["in[0] <= 9"], "fs": 32, "unwind_models": 16}
//@ OBL {"name": "h10a_u32", "family": "h10a", "prop": "vp_h10a_u32", "assume": "va_h10", "in": 20, "out": 24, "unwind": 12, "unwind_fn": {"SkipValueImpl": 1, "^verif_stream_copy$": 12, "^verif_memmove$": 12}, "recursion": {"SkipValueImpl": 0}, "bounds": "every byte string of length <= 9 whose first byte is not an array/map header, both policies symbolic", "desc": "string reader vs stream reader, operation u32: same outcome category, value and position", "cassume": ["in[0] <= 9"], "fs": 32, "unwind_models": 16}
//@ OBL {"name": "h10a_u64", "family": "h10a", "prop": "vp_h10a_u64", "assume": "va_h10", "in": 20, "out": 24, "unwind": 12, "unwind_fn": {"SkipValueImpl": 1, "^verif_stream_copy$": 12, "^verif_memmove$": 12}, "recursion": {"SkipValueImpl": 0}, "bounds": "every byte string of length <= 9 whose first byte is not an array/map header, both policies symbolic", "desc": "string reader vs stream reader, operation u64: same outcome category, value and position", "cassume": ["in[0] <= 9"], "fs": 32, "unwind_models": 16}
//@ OBL {"name": "h10a_i8", "family": "h10a", "prop": "vp_h10a_i8", "assume": "va_h10", "in": 20, "out": 24, "unwind": 12, "unwind_fn": {"SkipValueImpl": 1, "^verif_stream_copy$": 12, "^verif_memmove$": 12}, "recursion": {"SkipValueImpl": 0}, "bounds": "every byte string of length <= 9 whose first byte is not an array/map header, both policies symbolic", "desc": "string reader vs stream reader, operation i8: same outcome category, value and position", "cassume": ["in[0] <= 9"], "fs": 32, "unwind_models": 16}
//@ OBL {"name": "h10a_i16", "family": "h10a", "prop": "vp_h10a_i16", "assume": "va_h10", "in": 20, "out": 24, "unwind": 12, "unwind_fn": {"SkipValueImpl": 1, "^verif_stream_copy$": 12, "^verif_memmove$": 12}, "recursion": {"SkipValueImpl": 0}, "bounds": "every byte string of length <= 9 whose first byte is not an array/map header, both policies symbolic", "desc": "string reader vs stream reader, operation i16: same outcome category, value and position", "cassume": ["in[0] <= 9"], "fs": 32, "unwind_models": 16}
//@ OBL {"name": "h10a_i32", "family": "h10a", "prop": "vp_h10a_i32", "assume": "va_h10", "in": 20, "out": 24, "unwind": 12, "unwind_fn": {"SkipValueImpl": 1, "^verif_stream_copy$": 12, "^verif_memmove$": 12}, "recursion": {"SkipValueImpl": 0}, "bounds": "every byte string of length <= 9 whose first byte is not an array/map header, both policies symbolic", "desc": "string reader vs stream reader, operation i32: same outcome category, value and position", "cassume": ["in[0] <= 9"], "fs": 32, "unwind_models": 16}
//@ OBL {"name": "h10a_i64", "family": "h10a", "prop": "vp_h10a_i64", "assume": "va_h10", "in": 20, "out": 24, "unwind": 12, "unwind_fn": {"SkipValueImpl": 1, "^verif_stream_copy$": 12, "^verif_memmove$": 12}, "recursion": {"SkipValueImpl": 0}, "bounds": "every byte string of length <= 9 whose first byte is not an array/map header, both policies symbolic", "desc": "string reader vs stream reader, operation i64: same outcome category, value and position", "cassume": ["in[0] <= 9"], "fs": 32, "unwind_models": 16}
//@ OBL {"name": "h10a_f32", "family": "h10a", "prop": "vp_h10a_f32", "assume": "va_h10", "in": 20, "out": 24, "unwind": 12, "unwind_fn": {"SkipValueImpl": 1, "^verif_stream_copy$": 12, "^verif_memmove$": 12}, "recursion": {"SkipValueImpl": 0}, "bounds": "every byte string of length <= 9 whose first byte is not an array/map header, both policies symbolic", "desc": "string reader vs stream reader, operation f32: same outcome category, value and position", "cassume": ["in[0] <= 9"], "fs": 32, "unwind_models": 16}
//@ OBL {"name": "h10a_f64", "family": "h10a", "prop": "vp_h10a_f64", "assume": "va_h10", "in": 20, "out": 24, "unwind": 12, "unwind_fn": {"SkipValueImpl": 1, "^verif_stream_copy$": 12, "^verif_memmove$": 12}, "recursion": {"SkipValueImpl": 0}, "bounds": "every byte string of length <= 9 whose first byte is not an array/map header, both policies symbolic", "desc": "string reader vs stream reader, operation f64: same outcome category, value and position", "cassume": ["in[0] <= 9"], "fs": 32, "unwind_models": 16}
//@ OBL {"name": "h10a_nil", "family": "h10a", "prop": "vp_h10a_nil", "assume": "va_h10", "in": 20, "out": 24, "unwind": 12, "unwind_fn": {"SkipValueImpl": 1, "^verif_stream_copy$": 12, "^verif_memmove$": 12}, "recursion": {"SkipValueImpl": 0}, "bounds": "every byte string of length <= 9 whose first byte is not an array/map header, both policies symbolic", "desc": "string reader vs stream reader, operation nil: same outcome category, value and position", "cassume": ["in[0] <= 9"], "fs": 32, "unwind_models": 16}
//@ OBL {"name": "h10a_str", "family": "h10a", "prop": "vp_h10a_str", "assume": "va_h10", "in": 20, "out": 24, "unwind": 12, "unwind_fn": {"SkipValueImpl": 1, "^verif_stream_copy$": 12, "^verif_memmove$": 12}, "recursion": {"SkipValueImpl": 0}, "bounds": "every byte string of length <= 9 whose first byte is not an array/map header, both policies symbolic", "desc": "string reader vs stream reader, operation str: same outcome category, value and position", "cassume": ["in[0] <= 9"], "fs": 32, "unwind_models": 16}
//@ OBL {"name": "h10a_array", "family": "h10a", "prop": "vp_h10a_array", "in": 20, "out": 24, "unwind": 12, "unwind_fn": {"SkipValueImpl": 1, "^verif_stream_copy$": 12, "^verif_memmove$": 12}, "recursion": {"SkipValueImpl": 0}, "bounds": "every byte string of length <= 9 whose first byte is not an array/map header, both policies symbolic", "desc": "string reader vs stream reader, operation array: same outcome category, value and position", "cassume": ["(in[1] & 1) == 0 || !((in[2] >= 0x80 && in[2] <= 0x9f) || (in[2] >= 0xdc && in[2] <= 0xdf))", "in[0] <= 9"], "fs": 32, "unwind_models": 16}
//@ OBL {"name": "h10a_map", "family": "h10a", "prop": "vp_h10a_map", "in": 20, "out": 24, "unwind": 12, "unwind_fn": {"SkipValueImpl": 1, "^verif_stream_copy$": 12, "^verif_memmove$": 12}, "recursion": {"SkipValueImpl": 0}, "bounds": "every byte string of length <= 9 whose first byte is not an array/map header, both policies symbolic", "desc": "string reader vs stream reader, operation map: same outcome category, value and position", "cassume": ["(in[1] & 1) == 0 || !((in[2] >= 0x80 && in[2] <= 0x9f) || (in[2] >= 0xdc && in[2] <= 0xdf))", "in[0] <= 9"], "fs": 32, "unwind_models": 16}
//@ OBL {"name": "h10a_bin", "family": "h10a", "prop": "vp_h10a_bin", "assume": "va_h10", "in": 20, "out": 24, "unwind": 12, "unwind_fn": {"SkipValueImpl": 1, "^verif_stream_copy$": 12, "^verif_memmove$": 12}, "recursion": {"SkipValueImpl": 0}, "bounds": "every byte string of length <= 9 whose first byte is not an array/map header, both policies symbolic", "desc": "string reader vs stream reader, operation bin: same outcome category, value and position", "cassume": ["in[0] <= 9"], "fs": 32, "unwind_models": 16}
//@ OBL {"name": "h10a_ts", "family": "h10a", "prop": "vp_h10a_ts", "assume": "va_h10", "in": 20, "out": 24, "unwind": 12, "unwind_fn": {"SkipValueImpl": 1, "^verif_stream_copy$": 12, "^verif_memmove$": 12}, "recursion": {"SkipValueImpl": 0}, "bounds": "every byte string of length <= 9 whose first byte is not an array/map header, both policies symbolic", "desc": "string reader vs stream reader, operation ts: same outcome category, value and position", "cassume": ["in[0] <= 9"], "fs": 32, "unwind_models": 16}
//@ OBL {"name": "h10a_type", "family": "h10a", "prop": "vp_h10a_type", "assume": "va_h10", "in": 20, "out": 24, "unwind": 12, "unwind_fn": {"SkipValueImpl": 1, "^verif_stream_copy$": 12, "^verif_memmove$": 12}, "recursion": {"SkipValueImpl": 0}, "bounds": "every byte string of length <= 9 whose first byte is not an array/map header, both policies symbolic", "desc": "string reader vs stream reader, operation type: same outcome category, value and position", "cassume": ["in[0] <= 9"], "fs": 32, "unwind_models": 16}
//@ VEC * 0200d080000000000000000000000000000000
//@ VEC * 0403a3616263000000000000000000000000
//@ VEC * 0601d6ff102030400000000000000000000000
//@ VEC * 0303c70005000000000000000000000000000000
//@ VEC * 0403c80004ff00000000000000000000000000
