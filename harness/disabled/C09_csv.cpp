//@ PROPERTY C09
//@ LINK csv/csv_writers.cpp
//@ MODELDEF VERIF_STRLEN_ZERO
// C09: CSV per RFC 4180.
//  h09a  CCsvStringWriter (src/csv/csv_writers.cpp): one key and two cells of <= 3 ARBITRARY bytes each, any of the five allowed
//        separators: the output is header record + data record, each terminated by CRLF, from which an independent RFC 4180
//        parser (harness/ref/rfc4180.h) recovers exactly the keys and the cells (separators, quotes, CR, LF inside cells included).
//  h09c  width mismatch on save: a second row with a different number of values makes NextLine() throw OutOfRange.
#include "vh.h"
#include "ref/rfc4180.h"
#include <string>
#include "csv/csv_writers.h"
using namespace BitSerializer;
using namespace BitSerializer::Csv::Detail;
static const char SEPS[5] = { ',', ';', '\t', ' ', '|' };
static inline int ser_outcome(int& code) { return code; }
template <class F> static inline int outcome(F&& f) {
	try { f(); return vh::OK; }
	catch (const SerializationException& e) { return vh::SER_BASE + static_cast<int>(e.GetErrorCode()); }
	catch (const std::exception&) { return vh::STD_EXCEPTION; }
	catch (...) { return vh::NON_STD; }
}
VH_EXPORT int vp_h09a_writer(const unsigned char* in, unsigned char* out) {
	const char sep = SEPS[in[0] % 5];
	size_t n1 = in[1] % 3, n2 = in[2] % 2;
	const char* c1 = reinterpret_cast<const char*>(in + 3); const char* c2 = reinterpret_cast<const char*>(in + 6);
	std::string o; o.reserve(300);
	CCsvStringWriter w(o, true, sep);
	verif_nogrow(&o);
	verif_symbolic_phase();
	int rc = outcome([&] {
		w.WriteValue(std::string_view("k1", 2), std::string_view(c1, n1));
		w.WriteValue(std::string_view("k2", 2), std::string_view(c2, n2));
		w.NextLine();
	});
	out[0] = (unsigned char)rc; out[1] = (unsigned char)o.size();
	if (rc != vh::OK) return 0;
	const unsigned char* p = reinterpret_cast<const unsigned char*>(o.data()); size_t n = o.size(), pos = 0;
	csvref::Field f[3];
	// header record
	int nf = csvref::parse_record(p, n, &pos, (unsigned char)sep, f, 3);
	if (nf != 2 || f[0].n != 2 || f[0].b[0] != 'k' || f[0].b[1] != '1' || f[1].n != 2 || f[1].b[1] != '2') return 0;
	if (pos < 2 || p[pos - 2] != '\r' || p[pos - 1] != '\n') return 0;
	// data record
	nf = csvref::parse_record(p, n, &pos, (unsigned char)sep, f, 3);
	if (nf != 2 || f[0].n != n1 || f[1].n != n2) return 0;
	for (size_t i = 0; i < 3; i++) { if (i < n1 && f[0].b[i] != (unsigned char)c1[i]) return 0; if (i < n2 && f[1].b[i] != (unsigned char)c2[i]) return 0; }
	return pos == n && p[n - 2] == '\r' && p[n - 1] == '\n';
}
VH_EXPORT int vp_h09c_width(const unsigned char* in, unsigned char* out) {
	std::string o; o.reserve(300);
	CCsvStringWriter w(o, true, ',');
	verif_nogrow(&o);
	unsigned second = in[0] % 4;            // number of values in the second row (first row has 2)
	verif_symbolic_phase();
	int rc1 = outcome([&] { w.WriteValue("a", "1"); w.WriteValue("b", "2"); w.NextLine(); });
	int rc2 = outcome([&] { for (unsigned i = 0; i < 3; i++) if (i < second) w.WriteValue("a", "x"); w.NextLine(); });
	out[0] = (unsigned char)rc1; out[1] = (unsigned char)rc2;
	if (rc1 != vh::OK) return 0;
	return second == 2 ? rc2 == vh::OK : rc2 == vh::SER_BASE + (int)SerializationErrorCode::OutOfRange;
}
//@ OBL {"name":"h09a_writer","prop":"vp_h09a_writer","in":12,"out":8,"unwind":10,"unwind_models":24,"unwind_fn":{"parse_record":22},"fs":0,"cap_s":900,"bounds":"first cell of 0..2 arbitrary bytes, second cell of 0..1 arbitrary bytes, 5 separators","desc":"CSV writer output parses back to exactly the keys and cells with an independent RFC 4180 parser; CRLF terminated records"}
//@ OBL {"name":"h09c_width","prop":"vp_h09c_width","in":8,"out":8,"unwind":12,"unwind_models":40,"fs":0,"cap_s":600,"bounds":"second row of 0..3 values after a first row of 2","desc":"row width mismatch on save is rejected with OutOfRange"}
//@ VEC * 000303612c62226364
//@ VEC * 010201220a00410000
//@ VEC * 0203030d0a2c2c2222
