//@ PROPERTY C10
//@ LINK msgpack/msgpack_readers.cpp common/binary_stream_reader.cpp
//@ MODELDEF VERIF_STRLEN_ZERO
//@ OVERRIDE _ZN13BitSerializer7Convert6Detail2ToImcSaIcELi0EEEvRKT_RNSt7__cxx1112basic_stringIT0_St11char_traitsIS9_ET1_EE
// H10e: memory reader vs stream reader (the two hand-duplicated MsgPack readers of msgpack_readers.cpp) on complete scalar values
// with a CONCRETE format byte and an arbitrary payload: same outcome category, same loaded value, same position, both policies
// symbolic.  The stream reader's state is CONSTRUCTED DIRECTLY (the guidance's "skip initialisation"): its CBinaryStreamReader
// cache already holds the whole document and the stream stands at its end with eofbit (| failbit, symbolic) - the state every
// stream of <= chunk_size bytes is in after the first refill (that this state is what a refill produces is the subject of the
// inductive cursor obligations h10b_*).  Nothing passes through the iostream model at symbolic length, which is what kept the
// earlier formulation (harness/disabled/C10_stream_scalars.cpp) from a verdict.
// in[0] = policy bits (0,1) | stream flag choice (bit 2), in[1..9) = payload bytes, in[9..17) = previous value of the target.
#include "vh.h"
#include "vh_stream.h"
#include <string>
#include <limits>
#include <sstream>
#include <filesystem>
#include "bitserializer/msgpack_archive.h"
#define private public
#include "common/binary_stream_reader.h"
#include "msgpack/msgpack_readers.h"
#undef private
#include "mp_read_ops.h"
using namespace mpo;
template <unsigned FMT, size_t PAYLOAD, class T> static inline int prop_fmt(const unsigned char* in, unsigned char* out) {
	unsigned char doc[9]; doc[0] = (unsigned char)FMT; for (size_t i = 0; i < 8; i++) doc[1 + i] = in[1 + i];
	In v; v.n = 1 + PAYLOAD; v.pol = in[0] & 3; v.b = doc; v.prev = in + 9;
	SerializationOptions opt = options(v.pol);
	vh::MemIStream is(reinterpret_cast<const char*>(doc), v.n);
	CMsgPackStringReader rs(std::string_view(reinterpret_cast<const char*>(doc), v.n), opt);
	CMsgPackStreamReader rt(is, opt);
	{	// the state after the first refill of a short stream
		auto& r = rt.mBinaryStreamReader;
		is.clear(); is.seekg(static_cast<std::streamoff>(v.n));
		is.setstate((in[0] & 4) ? std::ios_base::eofbit : (std::ios_base::eofbit | std::ios_base::failbit));
		for (size_t i = 0; i < 9; i++) r.mBuffer[i] = i < v.n ? (char)doc[i] : 0;
		r.mStartDataPtr = r.mBuffer; r.mEndDataPtr = r.mBuffer + v.n; r.mStreamPos = v.n;
	}
	verif_symbolic_phase();
	Res a, b; do_scalar<CMsgPackStringReader, T>(rs, v, a); do_scalar<CMsgPackStreamReader, T>(rt, v, b);
	out[0] = (unsigned char)a.rc; out[1] = (unsigned char)a.pos; out[2] = (unsigned char)b.rc; out[3] = (unsigned char)b.pos; for (int i = 0; i < 8; i++) { out[4 + i] = a.val[i]; out[12 + i] = b.val[i]; }
	if (a.rc != b.rc) return 0;
	if (a.rc != vh::OK && a.rc != vh::NOT_LOADED) return 1;
	if (a.pos != b.pos) return 0;
	for (int i = 0; i < 16; i++) if (a.val[i] != b.val[i]) return 0;
	return 1;
}
#define E(name, FMT, P, T) VH_EXPORT int vp_h10e_##name(const unsigned char* in, unsigned char* out) { return prop_fmt<FMT, P, T>(in, out); }
E(f64_f32, 0xcb, 8, float) E(f64_f64, 0xcb, 8, double) E(f32_f32, 0xca, 4, float) E(f32_f64, 0xca, 4, double) E(f64_i32, 0xcb, 8, int32_t) E(u64_i32, 0xcf, 8, int32_t) E(i64_u8, 0xd3, 8, uint8_t) E(u16_i8, 0xcd, 2, int8_t) E(i32_u64, 0xd2, 4, uint64_t) E(i8_u16, 0xd0, 1, uint16_t) E(u32_i64, 0xce, 4, int64_t) E(u8_bool, 0xcc, 1, bool) E(i16_i16, 0xd1, 2, int16_t) E(u64_f32, 0xcf, 8, float) E(i64_f64, 0xd3, 8, double)
//@ OBL {"name": "h10e_f64_f32", "prop": "vp_h10e_f64_f32", "in": 17, "out": 24, "unwind": 18, "unwind_models": 18, "mem_gb": 16, "unwind_fn": {"SkipValueImpl": 1}, "recursion": {"SkipValueImpl": 0}, "fs": 32, "cap_s": 900, "backends": ["default"], "bounds": "concrete format byte 0xcb, every payload (8 bytes), both policies, every previous target value; stream reader state = whole document cached, stream at end (eofbit with or without failbit)", "desc": "CMsgPackStreamReader == CMsgPackStringReader for float 64 -> float (overflow policy)"}
//@ OBL {"name": "h10e_f64_f64", "prop": "vp_h10e_f64_f64", "in": 17, "out": 24, "unwind": 18, "unwind_models": 18, "mem_gb": 16, "unwind_fn": {"SkipValueImpl": 1}, "recursion": {"SkipValueImpl": 0}, "fs": 32, "cap_s": 900, "backends": ["default"], "bounds": "concrete format byte 0xcb, every payload (8 bytes), both policies, every previous target value; stream reader state = whole document cached, stream at end (eofbit with or without failbit)", "desc": "CMsgPackStreamReader == CMsgPackStringReader for float 64 -> double", "tier": "thorough"}
//@ OBL {"name": "h10e_f32_f32", "prop": "vp_h10e_f32_f32", "in": 17, "out": 24, "unwind": 18, "unwind_models": 18, "mem_gb": 16, "unwind_fn": {"SkipValueImpl": 1}, "recursion": {"SkipValueImpl": 0}, "fs": 32, "cap_s": 900, "backends": ["default"], "bounds": "concrete format byte 0xca, every payload (4 bytes), both policies, every previous target value; stream reader state = whole document cached, stream at end (eofbit with or without failbit)", "desc": "CMsgPackStreamReader == CMsgPackStringReader for float 32 -> float", "tier": "thorough"}
//@ OBL {"name": "h10e_f32_f64", "prop": "vp_h10e_f32_f64", "in": 17, "out": 24, "unwind": 18, "unwind_models": 18, "mem_gb": 16, "unwind_fn": {"SkipValueImpl": 1}, "recursion": {"SkipValueImpl": 0}, "fs": 32, "cap_s": 900, "backends": ["default"], "bounds": "concrete format byte 0xca, every payload (4 bytes), both policies, every previous target value; stream reader state = whole document cached, stream at end (eofbit with or without failbit)", "desc": "CMsgPackStreamReader == CMsgPackStringReader for float 32 -> double"}
//@ OBL {"name": "h10e_f64_i32", "prop": "vp_h10e_f64_i32", "in": 17, "out": 24, "unwind": 18, "unwind_models": 18, "mem_gb": 16, "unwind_fn": {"SkipValueImpl": 1}, "recursion": {"SkipValueImpl": 0}, "fs": 32, "cap_s": 900, "backends": ["default"], "bounds": "concrete format byte 0xcb, every payload (8 bytes), both policies, every previous target value; stream reader state = whole document cached, stream at end (eofbit with or without failbit)", "desc": "CMsgPackStreamReader == CMsgPackStringReader for float 64 -> int32_t (mismatch policy)", "tier": "thorough"}
//@ OBL {"name": "h10e_u64_i32", "prop": "vp_h10e_u64_i32", "in": 17, "out": 24, "unwind": 18, "unwind_models": 18, "mem_gb": 16, "unwind_fn": {"SkipValueImpl": 1}, "recursion": {"SkipValueImpl": 0}, "fs": 32, "cap_s": 900, "backends": ["default"], "bounds": "concrete format byte 0xcf, every payload (8 bytes), both policies, every previous target value; stream reader state = whole document cached, stream at end (eofbit with or without failbit)", "desc": "CMsgPackStreamReader == CMsgPackStringReader for uint 64 -> int32_t"}
//@ OBL {"name": "h10e_i64_u8", "prop": "vp_h10e_i64_u8", "in": 17, "out": 24, "unwind": 18, "unwind_models": 18, "mem_gb": 16, "unwind_fn": {"SkipValueImpl": 1}, "recursion": {"SkipValueImpl": 0}, "fs": 32, "cap_s": 900, "backends": ["default"], "bounds": "concrete format byte 0xd3, every payload (8 bytes), both policies, every previous target value; stream reader state = whole document cached, stream at end (eofbit with or without failbit)", "desc": "CMsgPackStreamReader == CMsgPackStringReader for int 64 -> uint8_t", "tier": "thorough"}
//@ OBL {"name": "h10e_u16_i8", "prop": "vp_h10e_u16_i8", "in": 17, "out": 24, "unwind": 18, "unwind_models": 18, "mem_gb": 16, "unwind_fn": {"SkipValueImpl": 1}, "recursion": {"SkipValueImpl": 0}, "fs": 32, "cap_s": 900, "backends": ["default"], "bounds": "concrete format byte 0xcd, every payload (2 bytes), both policies, every previous target value; stream reader state = whole document cached, stream at end (eofbit with or without failbit)", "desc": "CMsgPackStreamReader == CMsgPackStringReader for uint 16 -> int8_t", "tier": "thorough"}
//@ OBL {"name": "h10e_i32_u64", "prop": "vp_h10e_i32_u64", "in": 17, "out": 24, "unwind": 18, "unwind_models": 18, "mem_gb": 16, "unwind_fn": {"SkipValueImpl": 1}, "recursion": {"SkipValueImpl": 0}, "fs": 32, "cap_s": 900, "backends": ["default"], "bounds": "concrete format byte 0xd2, every payload (4 bytes), both policies, every previous target value; stream reader state = whole document cached, stream at end (eofbit with or without failbit)", "desc": "CMsgPackStreamReader == CMsgPackStringReader for int 32 -> uint64_t", "tier": "thorough"}
//@ OBL {"name": "h10e_i8_u16", "prop": "vp_h10e_i8_u16", "in": 17, "out": 24, "unwind": 18, "unwind_models": 18, "mem_gb": 16, "unwind_fn": {"SkipValueImpl": 1}, "recursion": {"SkipValueImpl": 0}, "fs": 32, "cap_s": 900, "backends": ["default"], "bounds": "concrete format byte 0xd0, every payload (1 bytes), both policies, every previous target value; stream reader state = whole document cached, stream at end (eofbit with or without failbit)", "desc": "CMsgPackStreamReader == CMsgPackStringReader for int 8 -> uint16_t", "tier": "thorough"}
//@ OBL {"name": "h10e_u32_i64", "prop": "vp_h10e_u32_i64", "in": 17, "out": 24, "unwind": 18, "unwind_models": 18, "mem_gb": 16, "unwind_fn": {"SkipValueImpl": 1}, "recursion": {"SkipValueImpl": 0}, "fs": 32, "cap_s": 900, "backends": ["default"], "bounds": "concrete format byte 0xce, every payload (4 bytes), both policies, every previous target value; stream reader state = whole document cached, stream at end (eofbit with or without failbit)", "desc": "CMsgPackStreamReader == CMsgPackStringReader for uint 32 -> int64_t", "tier": "thorough"}
//@ OBL {"name": "h10e_u8_bool", "prop": "vp_h10e_u8_bool", "in": 17, "out": 24, "unwind": 18, "unwind_models": 18, "mem_gb": 16, "unwind_fn": {"SkipValueImpl": 1}, "recursion": {"SkipValueImpl": 0}, "fs": 32, "cap_s": 900, "backends": ["default"], "bounds": "concrete format byte 0xcc, every payload (1 bytes), both policies, every previous target value; stream reader state = whole document cached, stream at end (eofbit with or without failbit)", "desc": "CMsgPackStreamReader == CMsgPackStringReader for uint 8 -> bool", "tier": "thorough"}
//@ OBL {"name": "h10e_i16_i16", "prop": "vp_h10e_i16_i16", "in": 17, "out": 24, "unwind": 18, "unwind_models": 18, "mem_gb": 16, "unwind_fn": {"SkipValueImpl": 1}, "recursion": {"SkipValueImpl": 0}, "fs": 32, "cap_s": 900, "backends": ["default"], "bounds": "concrete format byte 0xd1, every payload (2 bytes), both policies, every previous target value; stream reader state = whole document cached, stream at end (eofbit with or without failbit)", "desc": "CMsgPackStreamReader == CMsgPackStringReader for int 16 -> int16_t", "tier": "thorough"}
//@ OBL {"name": "h10e_u64_f32", "prop": "vp_h10e_u64_f32", "in": 17, "out": 24, "unwind": 18, "unwind_models": 18, "mem_gb": 16, "unwind_fn": {"SkipValueImpl": 1}, "recursion": {"SkipValueImpl": 0}, "fs": 32, "cap_s": 900, "backends": ["default"], "bounds": "concrete format byte 0xcf, every payload (8 bytes), both policies, every previous target value; stream reader state = whole document cached, stream at end (eofbit with or without failbit)", "desc": "CMsgPackStreamReader == CMsgPackStringReader for uint 64 -> float", "tier": "thorough"}
//@ OBL {"name": "h10e_i64_f64", "prop": "vp_h10e_i64_f64", "in": 17, "out": 24, "unwind": 18, "unwind_models": 18, "mem_gb": 16, "unwind_fn": {"SkipValueImpl": 1}, "recursion": {"SkipValueImpl": 0}, "fs": 32, "cap_s": 900, "backends": ["default"], "bounds": "concrete format byte 0xd3, every payload (8 bytes), both policies, every previous target value; stream reader state = whole document cached, stream at end (eofbit with or without failbit)", "desc": "CMsgPackStreamReader == CMsgPackStringReader for int 64 -> double", "tier": "thorough"}
//@ VEC * 007fefffffffffffff0000000000000000
//@ VEC * 0300000000000000011122334455667788
//@ VEC * 0647efffffe00000001122334455667788
