//@ PROPERTY C19
//@ IR2C --store-hook
// C19: the operations of C16_numbers.cpp re-decided with the store instrumentation (see C19_enum_utf.cpp for the argument): no store inside
// the operation window hits a mutable module-level object of the linked code, for every input within the bound.
#include "C16_numbers.cpp"
//@ OBL {"name": "h19_h16a_u16", "prop": "vp_h16a_u16", "in": 24, "out": 16, "unwind": 26, "backends": ["kissat", "default"], "cap_s": 900, "bounds": "every uint16_t", "desc": "[C19 no-shared-write reading] To(u16, string&) then To(string_view, u16&): identity; shape -?[1-9][0-9]*|0", "tier": "quick"}
//@ OBL {"name": "h19_h16b_i16", "prop": "vp_h16b_i16", "in": 24, "out": 16, "unwind": 12, "backends": ["kissat", "default"], "cap_s": 900, "assume": "va_n4", "cassume": ["in[0] <= 4"], "bounds": "every char string of length <= 4 (the view is followed by 2 more symbolic characters in the same buffer)", "desc": "[C19 no-shared-write reading] To(string_view, i16&) == reference: blanks, leading literal, range, '.digit' rejected, target untouched on error", "tier": "quick"}
//@ OBL {"name": "h19_h16c_bool", "prop": "vp_h16c_bool", "in": 24, "out": 16, "unwind": 12, "backends": ["kissat", "default"], "cap_s": 900, "assume": "va_n4", "bounds": "every char string of length <= 4 followed by 4 more symbolic characters in the buffer", "desc": "[C19 no-shared-write reading] To(string_view, bool&) == reference (0|1, true|false any case, digit runs out_of_range)", "tier": "quick"}
//@ VEC * 032d3132000000000000000000000000000000000000
//@ VEC * 0520203132370000000000000000000000000000
//@ VEC * 04312e350000000000000000000000000000
//@ VEC * 0474727565000000000000000000000000
//@ VEC * 022d31000000000000000000000000000000
//@ VEC * 8000000000000000
//@ VEC * ff7f000000000000
