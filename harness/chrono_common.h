// Shared by C14 and C15: parse a harness-rendered ISO date-time text built from symbolic fields and compare with the
// independent day-count reference.
#pragma once
#include "vh.h"
#include "ref/calendar.h"
#include <chrono>
#include <string>
#include "bitserializer/convert.h"
namespace chr = std::chrono;
template <class D> using tp_t = chr::time_point<chr::system_clock, D>;
// ---- h14b: parsing.  in: year(int16 as int64 range -9999..9999), month, day, h, m, s
struct Fields { int64_t y; int mo, d, h, mi, s; };
static inline Fields load_fields(const unsigned char* in) { Fields f; f.y = vh::rd<int16_t>(in); f.mo = in[2]; f.d = in[3]; f.h = in[4]; f.mi = in[5]; f.s = in[6]; return f; }
static inline size_t render(const Fields& f, char* b) {
	size_t n = 0; int64_t y = f.y;
	if (y < 0) { b[n++] = '-'; y = -y; }
	b[n++] = (char)('0' + y / 1000 % 10); b[n++] = (char)('0' + y / 100 % 10); b[n++] = (char)('0' + y / 10 % 10); b[n++] = (char)('0' + y % 10);
	auto two = [&](int v, char sep) { b[n++] = sep; b[n++] = (char)('0' + v / 10 % 10); b[n++] = (char)('0' + v % 10); };
	two(f.mo, '-'); two(f.d, '-'); two(f.h, 'T'); two(f.mi, ':'); two(f.s, ':'); b[n++] = 'Z';
	return n;
}
static inline int fields_ok(const unsigned char* in) { Fields f = load_fields(in); return f.y >= -9999 && f.y <= 9999 && f.mo <= 99 && f.d <= 99 && f.h <= 99 && f.mi <= 99 && f.s <= 99; }
template <class D> static inline int prop_parse(const unsigned char* in, unsigned char* out) {
	Fields f = load_fields(in);
	char text[24]; size_t n = render(f, text);
	verif_symbolic_phase();
	tp_t<D> tp(D(12345));
	int rc = vh::outcome([&] { BitSerializer::Convert::Detail::To(std::string_view(text, n), tp); });
	int64_t got = tp.time_since_epoch().count();
	out[0] = (unsigned char)rc; vh::wr(out + 1, got);
	bool ok_fields = cal::valid(f.y, f.mo, f.d) && f.h <= 23 && f.mi <= 59 && f.s <= 59;
	if (!ok_fields) return rc == vh::INVALID_ARGUMENT && got == 12345;
	typedef __int128 i128;
	i128 secs = (i128)cal::days_from_civil(f.y, f.mo, f.d) * 86400 + f.h * 3600 + f.mi * 60 + f.s;
	// exact value in D, if representable and exact (no rounding of anything but second fractions is allowed)
	constexpr int64_t num = D::period::num, den = D::period::den;
	i128 scaled = secs * den;
	if (scaled % num != 0) return rc == vh::OUT_OF_RANGE && got == 12345;        // e.g. 00:00:01 into a minutes-based time point
	i128 v = scaled / num;
	if (v > (i128)INT64_MAX || v < (i128)INT64_MIN) return rc == vh::OUT_OF_RANGE && got == 12345;
	return rc == vh::OK && (i128)got == v;
}
