// Reference proleptic Gregorian calendar, independent of Hinnant's era algorithm used by the library:
// days since 1970-01-01 computed from "days before year y" (365y + leap days) + cumulative month table.  Oracle only.
#pragma once
#include <cstdint>
namespace cal {
inline bool leap(int64_t y) { return y % 4 == 0 && (y % 100 != 0 || y % 400 == 0); }
inline int dim(int64_t y, int m) { static const int t[12] = { 31, 28, 31, 30, 31, 30, 31, 31, 30, 31, 30, 31 }; return (m == 2 && leap(y)) ? 29 : t[m - 1]; }
inline bool valid(int64_t y, int m, int d) { return m >= 1 && m <= 12 && d >= 1 && d <= dim(y, m); }
// floor division helpers (y may be negative)
inline int64_t fdiv(int64_t a, int64_t b) { int64_t q = a / b; return (a % b != 0 && ((a < 0) != (b < 0))) ? q - 1 : q; }
// number of days from 0000-01-01 to y-01-01 (astronomical year numbering, year 0 is leap)
inline int64_t days_before_year(int64_t y) { int64_t p = y - 1; return 365 * y + fdiv(p, 4) - fdiv(p, 100) + fdiv(p, 400) + 1; }   // +1: year 0 itself is a leap year
inline int64_t days_from_civil(int64_t y, int m, int d) {
	static const int cum[12] = { 0, 31, 59, 90, 120, 151, 181, 212, 243, 273, 304, 334 };
	int64_t n = days_before_year(y) + cum[m - 1] + ((m > 2 && leap(y)) ? 1 : 0) + (d - 1);
	return n - 719528;          // days_from_civil(1970,1,1) relative to 0000-01-01
}
}
