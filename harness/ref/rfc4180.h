// Reference RFC 4180 record parser (quotes optional unless the field contains separator / quote / CR / LF; "" escapes a quote;
// CRLF or LF ends a record; the last record may lack the line break).  Naive, oracle only.
#pragma once
#include <cstddef>
namespace csvref {
struct Field { size_t n; unsigned char b[8]; };
// Parses ONE record starting at p[*pos]; fills up to maxf fields (each up to 8 bytes); returns number of fields, -1 if malformed.
inline int parse_record(const unsigned char* p, size_t n, size_t* pos, unsigned char sep, Field* f, int maxf) {
	int nf = 0; size_t i = *pos;
	for (;;) {
		if (nf >= maxf) return -1;
		Field& cur = f[nf]; cur.n = 0;
		if (i < n && p[i] == '"') {
			i++;
			for (;;) {
				if (i >= n) return -1;                              // unterminated quoted field
				if (p[i] == '"') { if (i + 1 < n && p[i + 1] == '"') { if (cur.n < 8) cur.b[cur.n++] = '"'; i += 2; continue; } i++; break; }
				if (cur.n < 8) cur.b[cur.n++] = p[i]; i++;
			}
			if (i < n && p[i] != sep && p[i] != '\r' && p[i] != '\n') return -1;   // garbage after the closing quote
		} else {
			while (i < n && p[i] != sep && p[i] != '\r' && p[i] != '\n') { if (p[i] == '"') return -1; if (cur.n < 8) cur.b[cur.n++] = p[i]; i++; }
		}
		nf++;
		if (i >= n) { *pos = i; return nf; }
		if (p[i] == sep) { i++; continue; }
		if (p[i] == '\r') { if (i + 1 < n && p[i + 1] == '\n') { *pos = i + 2; return nf; } return -1; }   // bare CR
		*pos = i + 1; return nf;                                    // LF
	}
}
}
