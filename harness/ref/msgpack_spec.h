// Reference model of the MessagePack specification (format table, integer families, float, str/bin/array/map headers,
// timestamp extension type -1 in its 32/64/96-bit layouts).  Transcribed from the spec; deliberately naive.  Oracle only.
#pragma once
#include <cstdint>
#include <cstddef>
#include <cstring>
namespace mp {
typedef __int128 i128;
enum Kind { Truncated = -2, Invalid = -1, Nil = 0, Bool, Int, Float32, Float64, Str, Bin, Array, Map, Ext, Timestamp };
struct Obj {
	int kind = Invalid;
	i128 ival = 0;            // Int/Bool value
	uint64_t bits = 0;        // Float32/Float64 bit pattern
	uint64_t len = 0;         // Str/Bin payload length, Array/Map entry count, Ext payload length
	size_t hdr = 0;           // header length (bytes before payload / first element)
	int ext_type = 0;
	int64_t ts_sec = 0; uint32_t ts_nsec = 0;   // Timestamp
};
inline uint64_t be2(const unsigned char* p) { return ((uint64_t)p[0] << 8) | p[1]; }
inline uint64_t be4(const unsigned char* p) { return (be2(p) << 16) | be2(p + 2); }
inline uint64_t be8(const unsigned char* p) { return (be4(p) << 32) | be4(p + 4); }
inline uint64_t be(const unsigned char* p, int n) { return n == 1 ? p[0] : n == 2 ? be2(p) : n == 4 ? be4(p) : be8(p); }
// Decode the header of one object at p (n bytes available).  For scalars hdr is the total length.
inline Obj decode(const unsigned char* p, size_t n) {
	Obj o;
	if (n == 0) { o.kind = Truncated; return o; }
	unsigned b = p[0];
	auto need = [&](size_t k) { if (n < k) { o.kind = Truncated; return false; } return true; };
	if (b <= 0x7f) { o.kind = Int; o.ival = b; o.hdr = 1; return o; }
	if (b >= 0xe0) { o.kind = Int; o.ival = (int8_t)b; o.hdr = 1; return o; }
	if (b >= 0x80 && b <= 0x8f) { o.kind = Map; o.len = b & 0x0f; o.hdr = 1; return o; }
	if (b >= 0x90 && b <= 0x9f) { o.kind = Array; o.len = b & 0x0f; o.hdr = 1; return o; }
	if (b >= 0xa0 && b <= 0xbf) { o.kind = Str; o.len = b & 0x1f; o.hdr = 1; return o; }
	switch (b) {
	case 0xc0: o.kind = Nil; o.hdr = 1; return o;
	case 0xc1: o.kind = Invalid; return o;
	case 0xc2: o.kind = Bool; o.ival = 0; o.hdr = 1; return o;
	case 0xc3: o.kind = Bool; o.ival = 1; o.hdr = 1; return o;
	case 0xc4: if (!need(2)) return o; o.kind = Bin; o.len = p[1]; o.hdr = 2; return o;
	case 0xc5: if (!need(3)) return o; o.kind = Bin; o.len = be(p + 1, 2); o.hdr = 3; return o;
	case 0xc6: if (!need(5)) return o; o.kind = Bin; o.len = be(p + 1, 4); o.hdr = 5; return o;
	case 0xc7: if (!need(3)) return o; o.kind = Ext; o.len = p[1]; o.ext_type = (int8_t)p[2]; o.hdr = 3; break;
	case 0xc8: if (!need(4)) return o; o.kind = Ext; o.len = be(p + 1, 2); o.ext_type = (int8_t)p[3]; o.hdr = 4; break;
	case 0xc9: if (!need(6)) return o; o.kind = Ext; o.len = be(p + 1, 4); o.ext_type = (int8_t)p[5]; o.hdr = 6; break;
	case 0xca: if (!need(5)) return o; o.kind = Float32; o.bits = be(p + 1, 4); o.hdr = 5; return o;
	case 0xcb: if (!need(9)) return o; o.kind = Float64; o.bits = be(p + 1, 8); o.hdr = 9; return o;
	case 0xcc: if (!need(2)) return o; o.kind = Int; o.ival = p[1]; o.hdr = 2; return o;
	case 0xcd: if (!need(3)) return o; o.kind = Int; o.ival = be(p + 1, 2); o.hdr = 3; return o;
	case 0xce: if (!need(5)) return o; o.kind = Int; o.ival = be(p + 1, 4); o.hdr = 5; return o;
	case 0xcf: if (!need(9)) return o; o.kind = Int; o.ival = (i128)be(p + 1, 8); o.hdr = 9; return o;
	case 0xd0: if (!need(2)) return o; o.kind = Int; o.ival = (int8_t)p[1]; o.hdr = 2; return o;
	case 0xd1: if (!need(3)) return o; o.kind = Int; o.ival = (int16_t)be(p + 1, 2); o.hdr = 3; return o;
	case 0xd2: if (!need(5)) return o; o.kind = Int; o.ival = (int32_t)be(p + 1, 4); o.hdr = 5; return o;
	case 0xd3: if (!need(9)) return o; o.kind = Int; o.ival = (int64_t)be(p + 1, 8); o.hdr = 9; return o;
	case 0xd4: if (!need(2)) return o; o.kind = Ext; o.len = 1; o.ext_type = (int8_t)p[1]; o.hdr = 2; break;
	case 0xd5: if (!need(2)) return o; o.kind = Ext; o.len = 2; o.ext_type = (int8_t)p[1]; o.hdr = 2; break;
	case 0xd6: if (!need(2)) return o; o.kind = Ext; o.len = 4; o.ext_type = (int8_t)p[1]; o.hdr = 2; break;
	case 0xd7: if (!need(2)) return o; o.kind = Ext; o.len = 8; o.ext_type = (int8_t)p[1]; o.hdr = 2; break;
	case 0xd8: if (!need(2)) return o; o.kind = Ext; o.len = 16; o.ext_type = (int8_t)p[1]; o.hdr = 2; break;
	case 0xd9: if (!need(2)) return o; o.kind = Str; o.len = p[1]; o.hdr = 2; return o;
	case 0xda: if (!need(3)) return o; o.kind = Str; o.len = be(p + 1, 2); o.hdr = 3; return o;
	case 0xdb: if (!need(5)) return o; o.kind = Str; o.len = be(p + 1, 4); o.hdr = 5; return o;
	case 0xdc: if (!need(3)) return o; o.kind = Array; o.len = be(p + 1, 2); o.hdr = 3; return o;
	case 0xdd: if (!need(5)) return o; o.kind = Array; o.len = be(p + 1, 4); o.hdr = 5; return o;
	case 0xde: if (!need(3)) return o; o.kind = Map; o.len = be(p + 1, 2); o.hdr = 3; return o;
	case 0xdf: if (!need(5)) return o; o.kind = Map; o.len = be(p + 1, 4); o.hdr = 5; return o;
	}
	// ext family: timestamp (type -1) in one of the three spec layouts
	if (o.kind == Ext && o.ext_type == -1) {
		const unsigned char* d = p + o.hdr;
		if (o.len == 4) { if (!need(o.hdr + 4)) return o; o.kind = Timestamp; o.ts_sec = (int64_t)be(d, 4); o.ts_nsec = 0; }
		else if (o.len == 8) { if (!need(o.hdr + 8)) return o; uint64_t v = be(d, 8); o.kind = Timestamp; o.ts_nsec = (uint32_t)(v >> 34); o.ts_sec = (int64_t)(v & 0x3ffffffffULL); }
		else if (o.len == 12) { if (!need(o.hdr + 12)) return o; o.kind = Timestamp; o.ts_nsec = (uint32_t)be(d, 4); o.ts_sec = (int64_t)be(d + 4, 8); }
	}
	return o;
}
// smallest number of bytes in which the spec can represent integer v
inline size_t min_int_len(i128 v) {
	if (v >= -32 && v <= 127) return 1;
	if (v >= -128 && v <= 255) return 2;
	if (v >= -32768 && v <= 65535) return 3;
	if (v >= -(i128)2147483648LL && v <= (i128)4294967295LL) return 5;
	return 9;
}
inline size_t min_len_hdr(int kind, uint64_t len) {   // str / bin / array / map headers
	if (kind == Str) return len < 32 ? 1 : len < 256 ? 2 : len < 65536 ? 3 : 5;
	if (kind == Bin) return len < 256 ? 2 : len < 65536 ? 3 : 5;
	return len < 16 ? 1 : len < 65536 ? 3 : 5;
}
// total encoded length of the value starting at p (recursive over containers), 0 if ill-formed / truncated; depth-bounded
inline size_t total_len(const unsigned char* p, size_t n, int depth) {
	Obj o = decode(p, n);
	if (o.kind < 0) return 0;
	if (o.kind == Str || o.kind == Bin || o.kind == Ext) { if (o.len > n - o.hdr) return 0; return o.hdr + (size_t)o.len; }
	if (o.kind == Timestamp) return o.hdr + (size_t)o.len;
	if (o.kind == Array || o.kind == Map) {
		if (depth == 0) return 0;
		uint64_t cnt = o.kind == Map ? o.len * 2 : o.len;
		size_t pos = o.hdr;
		if (cnt > n) return 0;
		for (uint64_t i = 0; i < cnt; i++) { size_t l = total_len(p + pos, n - pos, depth - 1); if (!l) return 0; pos += l; }
		return pos;
	}
	return o.hdr;
}
}
