// Reference model of the Unicode encoding forms (Unicode Standard ch. 3, Table 3-6 / 3-7, D91-D92).
// Deliberately naive; used as oracle only.  Self-tested natively in translation validation (spec examples as VEC lines).
#pragma once
#include <cstdint>
#include <cstddef>
namespace ref {
inline bool is_scalar(uint32_t c) { return c < 0xD800u || (c > 0xDFFFu && c <= 0x10FFFFu); }

// Length of the well-formed UTF-8 sequence starting at p (n bytes available): 1..4, or 0 if ill-formed/truncated. Table 3-7.
inline int utf8_seq(const unsigned char* p, size_t n, uint32_t* cp) {
	if (n == 0) return 0;
	unsigned b0 = p[0];
	if (b0 <= 0x7F) { *cp = b0; return 1; }
	if (b0 >= 0xC2 && b0 <= 0xDF) {
		if (n < 2 || (p[1] & 0xC0) != 0x80) return 0;
		*cp = ((b0 & 0x1F) << 6) | (p[1] & 0x3F); return 2;
	}
	if (b0 >= 0xE0 && b0 <= 0xEF) {
		if (n < 3) return 0;
		unsigned lo = 0x80, hi = 0xBF;
		if (b0 == 0xE0) lo = 0xA0;
		if (b0 == 0xED) hi = 0x9F;
		if (p[1] < lo || p[1] > hi || (p[2] & 0xC0) != 0x80) return 0;
		*cp = ((b0 & 0x0F) << 12) | ((p[1] & 0x3F) << 6) | (p[2] & 0x3F); return 3;
	}
	if (b0 >= 0xF0 && b0 <= 0xF4) {
		if (n < 4) return 0;
		unsigned lo = 0x80, hi = 0xBF;
		if (b0 == 0xF0) lo = 0x90;
		if (b0 == 0xF4) hi = 0x8F;
		if (p[1] < lo || p[1] > hi || (p[2] & 0xC0) != 0x80 || (p[3] & 0xC0) != 0x80) return 0;
		*cp = ((b0 & 0x07) << 18) | ((p[1] & 0x3F) << 12) | ((p[2] & 0x3F) << 6) | (p[3] & 0x3F); return 4;
	}
	return 0;
}
// Decode the longest well-formed prefix; returns its length in bytes, code points to cps (max maxc).
inline size_t utf8_wf_prefix(const unsigned char* p, size_t n, uint32_t* cps, size_t maxc, size_t* ncp) {
	size_t i = 0, k = 0;
	while (i < n && k < maxc) { uint32_t c; int l = utf8_seq(p + i, n - i, &c); if (!l) break; cps[k++] = c; i += (size_t)l; }
	*ncp = k; return i;
}
inline size_t utf16_wf_prefix(const uint16_t* p, size_t n, uint32_t* cps, size_t maxc, size_t* ncp) {
	size_t i = 0, k = 0;
	while (i < n && k < maxc) {
		uint32_t u = p[i];
		if (u < 0xD800 || u > 0xDFFF) { cps[k++] = u; i++; continue; }
		if (u >= 0xDC00) break;                       // lone low surrogate
		if (i + 1 >= n) break;                        // truncated pair
		uint32_t l = p[i + 1];
		if (l < 0xDC00 || l > 0xDFFF) break;          // high surrogate not followed by low
		cps[k++] = 0x10000 + ((u - 0xD800) << 10) + (l - 0xDC00); i += 2;
	}
	*ncp = k; return i;
}
inline size_t utf32_wf_prefix(const uint32_t* p, size_t n, uint32_t* cps, size_t maxc, size_t* ncp) {
	size_t i = 0;
	while (i < n && i < maxc && is_scalar(p[i])) { cps[i] = p[i]; i++; }
	*ncp = i; return i;
}
inline size_t enc_utf8(uint32_t c, unsigned char* o) {
	if (c < 0x80) { o[0] = (unsigned char)c; return 1; }
	if (c < 0x800) { o[0] = (unsigned char)(0xC0 | (c >> 6)); o[1] = (unsigned char)(0x80 | (c & 0x3F)); return 2; }
	if (c < 0x10000) { o[0] = (unsigned char)(0xE0 | (c >> 12)); o[1] = (unsigned char)(0x80 | ((c >> 6) & 0x3F)); o[2] = (unsigned char)(0x80 | (c & 0x3F)); return 3; }
	o[0] = (unsigned char)(0xF0 | (c >> 18)); o[1] = (unsigned char)(0x80 | ((c >> 12) & 0x3F)); o[2] = (unsigned char)(0x80 | ((c >> 6) & 0x3F)); o[3] = (unsigned char)(0x80 | (c & 0x3F)); return 4;
}
inline size_t enc_utf16(uint32_t c, uint16_t* o) {
	if (c < 0x10000) { o[0] = (uint16_t)c; return 1; }
	c -= 0x10000; o[0] = (uint16_t)(0xD800 + (c >> 10)); o[1] = (uint16_t)(0xDC00 + (c & 0x3FF)); return 2;
}
// whole-buffer validators
inline bool utf8_valid(const unsigned char* p, size_t n) { size_t i = 0; while (i < n) { uint32_t c; int l = utf8_seq(p + i, n - i, &c); if (!l) return false; i += (size_t)l; } return true; }
inline bool utf16_valid(const uint16_t* p, size_t n) {
	size_t i = 0;
	while (i < n) { uint32_t u = p[i]; if (u < 0xD800 || u > 0xDFFF) { i++; continue; } if (u >= 0xDC00 || i + 1 >= n || p[i + 1] < 0xDC00 || p[i + 1] > 0xDFFF) return false; i += 2; }
	return true;
}
inline bool utf32_valid(const uint32_t* p, size_t n) { for (size_t i = 0; i < n; i++) if (!is_scalar(p[i])) return false; return true; }
}
