//@ PROPERTY C02
// C02 (no input can crash / hang / run into UB): ISO date-time parser on arbitrary characters.  The obligations of C15_chrono_parse.cpp are re-decided here for the safety reading of
// their verdict: the inputs are arbitrary within the bound, every loop is unwound with --unwinding-assertions (termination within the
// bound), CBMC instruments every dereference / array access of the encoded real code, the IR carries explicit ubsan trap checks
// (signed overflow, shifts, division, float casts, bounds), an exception that is not derived from std::exception yields outcome NON_STD
// which no oracle accepts, and std::terminate / noexcept violations are assertions of the exception lowering.
#include "C15_chrono_parse.cpp"
//@ OBL {"name": "h02_h15c_frac", "prop": "vp_h15c_frac", "out": 16, "unwind": 14, "backends": ["kissat", "default", "cvc5", "z3"], "cap_s": 900, "assume": "va_h15c", "in": 12, "bounds": "every string of length <= 3 (division by the symbolic value: longer inputs do not close; thorough: 4)", "desc": "[C02 safety reading] ParseSecondFractions: 1..9 digits exact nanoseconds, otherwise failure - here: terminates within the unwinding bound, no out-of-bounds access / UB (CBMC memory-safety and ubsan-trap assertions on the encoded real code), any exception is derived from std::exception", "cassume": ["in[0] <= 3"], "tier": "quick"}
//@ OBL {"name": "h02_h15d_s", "prop": "vp_h15d_s", "out": 16, "unwind": 8, "backends": ["kissat", "default", "cvc5", "z3"], "cap_s": 900, "in": 20, "bounds": "20-character buffers 20??-??-??T??:??:??? with the 13 remaining characters arbitrary (thorough: all 15 non-separator characters arbitrary)", "desc": "[C02 safety reading] To(string_view, time_point<seconds>&): calendar-valid -> exact reference instant; out-of-range fields (incl. Feb 29 of non-leap years) -> invalid_argument - here: terminates within the unwinding bound, no out-of-bounds access / UB (CBMC memory-safety and ubsan-trap assertions on the encoded real code), any exception is derived from std::exception", "cassume": ["in[4]=='-' && in[7]=='-' && in[10]=='T' && in[13]==':' && in[16]==':'", "in[0]=='2' && in[1]=='0'"], "tier": "quick"}
//@ VEC * 0000000000000000000000000000000000000000
//@ VEC * 323032332d30322d32395430303a30303a30305a
//@ VEC * 323032342d30322d32395432333a35393a35395a
//@ VEC * 0550543130530000000000
//@ VEC * 082d50315754314d00
//@ VEC * 03393939000000000000000000
