//@ PROPERTY C02
//@ LINK msgpack/msgpack_readers.cpp common/binary_stream_reader.cpp
//@ MODELDEF VERIF_STRLEN_ZERO
//@ OVERRIDE _ZN13BitSerializer7Convert6Detail2ToImcSaIcELi0EEEvRKT_RNSt7__cxx1112basic_stringIT0_St11char_traitsIS9_ET1_EE
// C02 (no input can crash / hang / run into UB): MsgPack reader operations on arbitrary bytes.  The obligations of C07_reader.cpp are re-decided here for the safety reading of
// their verdict: the inputs are arbitrary within the bound, every loop is unwound with --unwinding-assertions (termination within the
// bound), CBMC instruments every dereference / array access of the encoded real code, the IR carries explicit ubsan trap checks
// (signed overflow, shifts, division, float casts, bounds), an exception that is not derived from std::exception yields outcome NON_STD
// which no oracle accepts, and std::terminate / noexcept violations are assertions of the exception lowering.
#include "C07_reader.cpp"
// ---- exact-extent twins: the document lives in a heap block of EXACTLY n bytes (operator new(n)), so a read even one byte past
// the end of the view is a memory-safety failure for CBMC's pointer checks (and for ASan in the native replay) - in the C07 layout
// the bytes sit inside the larger input record, where such a read would go unnoticed.  Oracle: only the documented outcomes.
struct ExactDoc {
	unsigned char* p; size_t n;
	ExactDoc(const unsigned char* b, size_t n_, size_t cap) : p(static_cast<unsigned char*>(::operator new(n_))), n(n_) { for (size_t i = 0; i < cap; i++) if (i < n) p[i] = b[i]; }
	~ExactDoc() { ::operator delete(p); }
	std::string_view view() const { return std::string_view(reinterpret_cast<const char*>(p), n); }
};
static inline bool documented(int rc) { return rc == vh::OK || rc == vh::NOT_LOADED || rc == RC_PARSING || rc == RC_MISMATCH || rc == RC_OVERFLOW; }
template <size_t CAP, class F> static inline int prop_exact(const unsigned char* in, unsigned char* out, F&& f) {
	size_t n = in[0] <= CAP ? in[0] : CAP;
	SerializationOptions opt = options(in[1] & 3);
	ExactDoc doc(in + 2, n, CAP);
	CMsgPackStringReader r(doc.view(), opt);
	verif_symbolic_phase();
	int rc = outcome([&] { return f(r); });
	size_t pos = r.GetPosition();
	out[0] = (unsigned char)rc; out[1] = (unsigned char)pos;
	return documented(rc) && pos <= n;
}
VH_EXPORT int va_h02x(const unsigned char* in) { return in[0] <= 9 && !(in[0] && is_container_byte(in[2])); }
VH_EXPORT int va_h02x_arr(const unsigned char* in) { unsigned b = in[2]; return in[0] <= 9 && !(in[0] && ((b >= 0x80 && b <= 0x8f) || b == 0xde || b == 0xdf)); }   // array headers are read, maps would be skipped recursively (C05)
VH_EXPORT int va_h02x16(const unsigned char* in) { return in[0] <= 16; }
VH_EXPORT int vp_h02x_i64(const unsigned char* in, unsigned char* out) { int64_t v = 5; return prop_exact<9>(in, out, [&](CMsgPackStringReader& r) { return r.ReadValue(v); }); }
VH_EXPORT int vp_h02x_f64(const unsigned char* in, unsigned char* out) { double v = 5; return prop_exact<9>(in, out, [&](CMsgPackStringReader& r) { return r.ReadValue(v); }); }
VH_EXPORT int vp_h02x_nil(const unsigned char* in, unsigned char* out) { std::nullptr_t v = nullptr; return prop_exact<9>(in, out, [&](CMsgPackStringReader& r) { return r.ReadValue(v); }); }
VH_EXPORT int vp_h02x_str(const unsigned char* in, unsigned char* out) { std::string_view v; return prop_exact<9>(in, out, [&](CMsgPackStringReader& r) { return r.ReadValue(v); }); }
VH_EXPORT int vp_h02x_bin(const unsigned char* in, unsigned char* out) { size_t v = 0; return prop_exact<9>(in, out, [&](CMsgPackStringReader& r) { return r.ReadBinarySize(v); }); }
VH_EXPORT int vp_h02x_arr(const unsigned char* in, unsigned char* out) { size_t v = 0; return prop_exact<9>(in, out, [&](CMsgPackStringReader& r) { return r.ReadArraySize(v); }); }
VH_EXPORT int vp_h02x_ts(const unsigned char* in, unsigned char* out) { CBinTimestamp v(1, 2); return prop_exact<9>(in, out, [&](CMsgPackStringReader& r) { return r.ReadValue(v); }); }
VH_EXPORT int vp_h02x_ts16(const unsigned char* in, unsigned char* out) { CBinTimestamp v(1, 2); return prop_exact<16>(in, out, [&](CMsgPackStringReader& r) { return r.ReadValue(v); }); }
//@ OBL {"name": "h02x_i64", "prop": "vp_h02x_i64", "assume": "va_h02x", "in": 18, "out": 16, "unwind": 12, "unwind_fn": {"SkipValueImpl": 1, "ExactDoc|prop_exact|vp_h02x": 18}, "recursion": {"SkipValueImpl": 0}, "fs": 32, "cap_s": 900, "bounds": "every byte string of length <= 9 held in a heap block of exactly that size, first byte not an array/map header, both policies", "desc": "[exact-extent] ReadValue(int64_t&): no read outside the document, documented outcomes only"}
//@ OBL {"name": "h02x_f64", "prop": "vp_h02x_f64", "assume": "va_h02x", "in": 18, "out": 16, "unwind": 12, "unwind_fn": {"SkipValueImpl": 1, "ExactDoc|prop_exact|vp_h02x": 18}, "recursion": {"SkipValueImpl": 0}, "fs": 32, "cap_s": 900, "bounds": "every byte string of length <= 9 held in a heap block of exactly that size, first byte not an array/map header, both policies", "desc": "[exact-extent] ReadValue(double&): no read outside the document, documented outcomes only"}
//@ OBL {"name": "h02x_nil", "prop": "vp_h02x_nil", "assume": "va_h02x", "in": 18, "out": 16, "unwind": 12, "unwind_fn": {"SkipValueImpl": 1, "ExactDoc|prop_exact|vp_h02x": 18}, "recursion": {"SkipValueImpl": 0}, "fs": 32, "cap_s": 900, "bounds": "every byte string of length <= 9 held in a heap block of exactly that size, first byte not an array/map header, both policies", "desc": "[exact-extent] ReadValue(nullptr_t&): no read outside the document, documented outcomes only"}
//@ OBL {"name": "h02x_str", "prop": "vp_h02x_str", "assume": "va_h02x", "in": 18, "out": 16, "unwind": 12, "unwind_fn": {"SkipValueImpl": 1, "ExactDoc|prop_exact|vp_h02x": 18}, "recursion": {"SkipValueImpl": 0}, "fs": 32, "cap_s": 900, "bounds": "every byte string of length <= 9 held in a heap block of exactly that size, first byte not an array/map header, both policies", "desc": "[exact-extent] ReadValue(string_view&): no read outside the document, documented outcomes only"}
//@ OBL {"name": "h02x_bin", "prop": "vp_h02x_bin", "assume": "va_h02x", "in": 18, "out": 16, "unwind": 12, "unwind_fn": {"SkipValueImpl": 1, "ExactDoc|prop_exact|vp_h02x": 18}, "recursion": {"SkipValueImpl": 0}, "fs": 32, "cap_s": 900, "bounds": "every byte string of length <= 9 held in a heap block of exactly that size, first byte not an array/map header, both policies", "desc": "[exact-extent] ReadBinarySize: no read outside the document, documented outcomes only"}
//@ OBL {"name": "h02x_arr", "prop": "vp_h02x_arr", "assume": "va_h02x_arr", "in": 18, "out": 16, "unwind": 12, "unwind_fn": {"SkipValueImpl": 1, "ExactDoc|prop_exact|vp_h02x": 18}, "recursion": {"SkipValueImpl": 0}, "fs": 32, "cap_s": 900, "bounds": "every byte string of length <= 9 held in a heap block of exactly that size, first byte not a map header, both policies", "desc": "[exact-extent] ReadArraySize: no read outside the document, documented outcomes only"}
//@ OBL {"name": "h02x_ts", "prop": "vp_h02x_ts", "assume": "va_h02x", "in": 18, "out": 16, "unwind": 12, "unwind_fn": {"SkipValueImpl": 1, "ExactDoc|prop_exact|vp_h02x": 18}, "recursion": {"SkipValueImpl": 0}, "fs": 32, "cap_s": 900, "bounds": "every byte string of length <= 9 held in a heap block of exactly that size, first byte not an array/map header, both policies", "desc": "[exact-extent] ReadValue(CBinTimestamp&): no read outside the document, documented outcomes only"}
//@ OBL {"name": "h02x_ts16", "prop": "vp_h02x_ts16", "assume": "va_h02x16", "in": 18, "out": 16, "unwind": 12, "unwind_fn": {"SkipValueImpl": 1, "ExactDoc|prop_exact|vp_h02x": 18}, "recursion": {"SkipValueImpl": 0}, "fs": 32, "cap_s": 900, "cassume": ["in[2] == 0xd6 || in[2] == 0xd7 || in[2] == 0xd8 || in[2] == 0xc7 || in[2] == 0xc8 || in[2] == 0xc9"], "bounds": "every byte string of length <= 16 starting with a fixext4/8/16, ext8, ext16 or ext32 header, in a heap block of exactly that size", "desc": "[exact-extent] ReadValue(CBinTimestamp&) over the extension family incl. truncation right after the length bytes"}
//@ OBL {"assume": "va_h07", "in": 20, "out": 24, "unwind": 12, "bounds": "every byte string of length <= 9 whose first byte is not an array/map header, both policies symbolic, previous target value symbolic", "name": "h02_h07a_i16", "prop": "vp_h07a_i16", "desc": "[C02 safety reading] CMsgPackStringReader::ReadValue(int16_t&) == reference decoder (value / policy / parsing error / position) - here: terminates within the unwinding bound, no out-of-bounds access / UB (CBMC memory-safety and ubsan-trap assertions on the encoded real code), any exception is derived from std::exception", "recursion": {"SkipValueImpl": 0, "total_len": 1}, "unwind_fn": {"SkipValueImpl": 1}, "fs": 32, "tier": "quick"}
//@ OBL {"assume": "va_h07", "in": 20, "out": 24, "unwind": 12, "bounds": "every byte string of length <= 9 whose first byte is not an array/map header, both policies symbolic, previous target value symbolic", "name": "h02_h07a_f32", "prop": "vp_h07a_f32", "desc": "[C02 safety reading] CMsgPackStringReader::ReadValue(float&) == reference decoder (value / policy / parsing error / position) - here: terminates within the unwinding bound, no out-of-bounds access / UB (CBMC memory-safety and ubsan-trap assertions on the encoded real code), any exception is derived from std::exception", "recursion": {"SkipValueImpl": 0, "total_len": 1}, "unwind_fn": {"SkipValueImpl": 1}, "fs": 32, "tier": "quick"}
//@ OBL {"assume": "va_h07", "in": 20, "out": 24, "unwind": 12, "bounds": "every byte string of length <= 9 whose first byte is not an array/map header, both policies symbolic, previous target value symbolic", "name": "h02_h07a_nil", "prop": "vp_h07a_nil", "desc": "[C02 safety reading] CMsgPackStringReader::ReadValue(std::nullptr_t&) == reference decoder (value / policy / parsing error / position) - here: terminates within the unwinding bound, no out-of-bounds access / UB (CBMC memory-safety and ubsan-trap assertions on the encoded real code), any exception is derived from std::exception", "recursion": {"SkipValueImpl": 0, "total_len": 1}, "unwind_fn": {"SkipValueImpl": 1}, "fs": 32, "tier": "quick"}
//@ OBL {"assume": "va_h07", "in": 20, "out": 24, "unwind": 12, "bounds": "every byte string of length <= 9 whose first byte is not an array/map header, both policies symbolic, previous target value symbolic", "name": "h02_h07b_str", "prop": "vp_h07b_str", "desc": "[C02 safety reading] length header reader (str): fix/8/16/32 forms, declared length vs available bytes - here: terminates within the unwinding bound, no out-of-bounds access / UB (CBMC memory-safety and ubsan-trap assertions on the encoded real code), any exception is derived from std::exception", "recursion": {"SkipValueImpl": 0, "total_len": 1}, "unwind_fn": {"SkipValueImpl": 1}, "fs": 32, "tier": "quick"}
//@ OBL {"assume": "va_h07", "in": 20, "out": 24, "unwind": 12, "bounds": "every byte string of length <= 9 whose first byte is not an array/map header, both policies symbolic, previous target value symbolic", "name": "h02_h07b_bin", "prop": "vp_h07b_bin", "desc": "[C02 safety reading] length header reader (bin): fix/8/16/32 forms, declared length vs available bytes - here: terminates within the unwinding bound, no out-of-bounds access / UB (CBMC memory-safety and ubsan-trap assertions on the encoded real code), any exception is derived from std::exception", "recursion": {"SkipValueImpl": 0, "total_len": 1}, "unwind_fn": {"SkipValueImpl": 1}, "fs": 32, "tier": "quick"}
//@ VEC * 0200d080000000000000000000000000000000
//@ VEC * 0300d1ffce0000000000000000000000000000
//@ VEC * 0900cfffffffffffffffff0000000000000000
//@ VEC * 0503ca4048f5c30000000000000000000000
//@ VEC * 0901cb400921fb5452455000000000000000
//@ VEC * 0403a3616263000000000000000000000000
//@ VEC * 0601d6ff102030400000000000000000000000
//@ VEC * 0303dc00100000000000000000000000000000
//@ VEC * 0101c1000000000000000000000000000000
//@ VEC * 0401929192c0000000000000000000000000
//@ VEC h02x_ts16 0300c8000c00000000000000000000000000
//@ VEC h02x_ts16 0600c9000000080000000000000000000000
//@ VEC h02x_ts16 0f00c70cff0000000100000000000000020000
//@ VEC h02x_i64 0900cf01020304050607080000000000000000
