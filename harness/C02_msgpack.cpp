//@ PROPERTY C02
//@ LINK msgpack/msgpack_readers.cpp common/binary_stream_reader.cpp
//@ MODELDEF VERIF_STRLEN_ZERO
//@ OVERRIDE _ZN13BitSerializer7Convert6Detail2ToImcSaIcELi0EEEvRKT_RNSt7__cxx1112basic_stringIT0_St11char_traitsIS9_ET1_EE
// C02 (no input can crash / hang / run into UB): MsgPack reader operations on arbitrary bytes.  The obligations of C07_reader.cpp are re-decided here for the safety reading of
// their verdict: the inputs are arbitrary within the bound, every loop is unwound with --unwinding-assertions (termination within the
// bound), CBMC instruments every dereference / array access of the encoded real code, the IR carries explicit ubsan trap checks
// (signed overflow, shifts, division, float casts, bounds), an exception that is not derived from std::exception yields outcome NON_STD
// which no oracle accepts, and std::terminate / noexcept violations are assertions of the exception lowering.
#include "C07_reader.cpp"
//@ OBL {"assume": "va_h07", "in": 20, "out": 24, "unwind": 12, "bounds": "every byte string of length <= 9 whose first byte is not an array/map header, both policies symbolic, previous target value symbolic", "name": "h02_h07a_i16", "prop": "vp_h07a_i16", "desc": "[C02 safety reading] CMsgPackStringReader::ReadValue(int16_t&) == reference decoder (value / policy / parsing error / position) - here: terminates within the unwinding bound, no out-of-bounds access / UB (CBMC memory-safety and ubsan-trap assertions on the encoded real code), any exception is derived from std::exception", "recursion": {"SkipValueImpl": 0, "total_len": 1}, "unwind_fn": {"SkipValueImpl": 1}, "fs": 32, "tier": "quick"}
//@ OBL {"assume": "va_h07", "in": 20, "out": 24, "unwind": 12, "bounds": "every byte string of length <= 9 whose first byte is not an array/map header, both policies symbolic, previous target value symbolic", "name": "h02_h07a_f32", "prop": "vp_h07a_f32", "desc": "[C02 safety reading] CMsgPackStringReader::ReadValue(float&) == reference decoder (value / policy / parsing error / position) - here: terminates within the unwinding bound, no out-of-bounds access / UB (CBMC memory-safety and ubsan-trap assertions on the encoded real code), any exception is derived from std::exception", "recursion": {"SkipValueImpl": 0, "total_len": 1}, "unwind_fn": {"SkipValueImpl": 1}, "fs": 32, "tier": "quick"}
//@ OBL {"assume": "va_h07", "in": 20, "out": 24, "unwind": 12, "bounds": "every byte string of length <= 9 whose first byte is not an array/map header, both policies symbolic, previous target value symbolic", "name": "h02_h07a_nil", "prop": "vp_h07a_nil", "desc": "[C02 safety reading] CMsgPackStringReader::ReadValue(std::nullptr_t&) == reference decoder (value / policy / parsing error / position) - here: terminates within the unwinding bound, no out-of-bounds access / UB (CBMC memory-safety and ubsan-trap assertions on the encoded real code), any exception is derived from std::exception", "recursion": {"SkipValueImpl": 0, "total_len": 1}, "unwind_fn": {"SkipValueImpl": 1}, "fs": 32, "tier": "quick"}
//@ OBL {"assume": "va_h07", "in": 20, "out": 24, "unwind": 12, "bounds": "every byte string of length <= 9 whose first byte is not an array/map header, both policies symbolic, previous target value symbolic", "name": "h02_h07b_str", "prop": "vp_h07b_str", "desc": "[C02 safety reading] length header reader (str): fix/8/16/32 forms, declared length vs available bytes - here: terminates within the unwinding bound, no out-of-bounds access / UB (CBMC memory-safety and ubsan-trap assertions on the encoded real code), any exception is derived from std::exception", "recursion": {"SkipValueImpl": 0, "total_len": 1}, "unwind_fn": {"SkipValueImpl": 1}, "fs": 32, "tier": "quick"}
//@ OBL {"assume": "va_h07", "in": 20, "out": 24, "unwind": 12, "bounds": "every byte string of length <= 9 whose first byte is not an array/map header, both policies symbolic, previous target value symbolic", "name": "h02_h07b_bin", "prop": "vp_h07b_bin", "desc": "[C02 safety reading] length header reader (bin): fix/8/16/32 forms, declared length vs available bytes - here: terminates within the unwinding bound, no out-of-bounds access / UB (CBMC memory-safety and ubsan-trap assertions on the encoded real code), any exception is derived from std::exception", "recursion": {"SkipValueImpl": 0, "total_len": 1}, "unwind_fn": {"SkipValueImpl": 1}, "fs": 32, "tier": "quick"}
//@ VEC * 0200d080000000000000000000000000000000
//@ VEC * 0300d1ffce0000000000000000000000000000
//@ VEC * 0900cfffffffffffffffff0000000000000000
//@ VEC * 0503ca4048f5c30000000000000000000000
//@ VEC * 0901cb400921fb5452455000000000000000
//@ VEC * 0403a3616263000000000000000000000000
//@ VEC * 0601d6ff102030400000000000000000000000
//@ VEC * 0303dc00100000000000000000000000000000
//@ VEC * 0101c1000000000000000000000000000000
//@ VEC * 0401929192c0000000000000000000000000
