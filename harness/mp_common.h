// Shared helpers for the MsgPack harnesses (C01/C03/C05/C07/C10/C20): option decoding, outcome codes, both reader classes
// over the same symbolic bytes.
#pragma once
#include "vh.h"
#include "vh_stream.h"
#include "ref/msgpack_spec.h"
#include <string>
#include "msgpack/msgpack_readers.h"
#include "msgpack/msgpack_writers.h"

namespace mpc {
using namespace BitSerializer;
using namespace BitSerializer::MsgPack::Detail;
using BitSerializer::Detail::CBinTimestamp;

static constexpr int RC_OVERFLOW = vh::SER_BASE + (int)SerializationErrorCode::Overflow;
static constexpr int RC_MISMATCH = vh::SER_BASE + (int)SerializationErrorCode::MismatchedTypes;
static constexpr int RC_OUTOFRANGE = vh::SER_BASE + (int)SerializationErrorCode::OutOfRange;
static constexpr int RC_PARSING = vh::PARSING;

// run f() -> bool ("loaded"); returns OK / NOT_LOADED / exception code
template <class F> static inline int outcome(F&& f) {
	try { return f() ? vh::OK : vh::NOT_LOADED; }
	catch (const ParsingException&) { return vh::PARSING; }
	catch (const SerializationException& e) { return e.GetErrorCode() == SerializationErrorCode::ParsingError ? vh::PARSING : vh::SER_BASE + static_cast<int>(e.GetErrorCode()); }
	catch (const std::out_of_range&) { return vh::OUT_OF_RANGE; }
	catch (const std::invalid_argument&) { return vh::INVALID_ARGUMENT; }
	catch (const std::exception&) { return vh::STD_EXCEPTION; }
	catch (...) { return vh::NON_STD; }
}
static inline SerializationOptions options(unsigned bits) {
	SerializationOptions o;
	o.mismatchedTypesPolicy = (bits & 1) ? MismatchedTypesPolicy::Skip : MismatchedTypesPolicy::ThrowError;
	o.overflowNumberPolicy = (bits & 2) ? OverflowNumberPolicy::Skip : OverflowNumberPolicy::ThrowError;
	return o;
}
// nesting depth of the value at p according to the reference (containers only); used to bound recursion in assumptions
static inline int depth_of(const unsigned char* p, size_t n, int limit) {
	mp::Obj o = mp::decode(p, n);
	if (o.kind != mp::Array && o.kind != mp::Map) return 0;
	if (limit == 0) return 99;
	uint64_t cnt = o.kind == mp::Map ? o.len * 2 : o.len;
	size_t pos = o.hdr; int d = 0;
	for (uint64_t i = 0; i < cnt && pos < n; i++) {
		int di = depth_of(p + pos, n - pos, limit - 1); if (di > d) d = di;
		size_t l = mp::total_len(p + pos, n - pos, limit); if (!l) break; pos += l;
	}
	return d + 1;
}
}
