//@ PROPERTY C12
// H12a/b/c: the UTF decoders/encoders of convert_utf.h on ARBITRARY code units (ill-formed included), transcoding to a
// different code-unit width, under ThrowError and Skip (default mark and empty mark).
// Input layout: in[0] = number of source units n (assumed <= N), then n units, little-endian in memory (for the *Be
// variants the units are byte-swapped in memory so that the same abstract unit sequence is presented).
// Oracle (segmentation-agnostic, DESIGN.md section 6 C12):
//  T1 ThrowError: succeeds iff the input is well-formed; on failure Iterator = start of the first ill-formed sequence and the
//     output is exactly the transcoding of the well-formed prefix.
//  S1 Skip: result is Success (Iterator==end) or UnexpectedEnd with Iterator inside the input at a position >= the well-formed prefix
//  S2 Skip: output is well-formed in the target encoding form
//  S3 Skip: InvalidSequencesCount == number of marks written (measured against a run with the empty mark), same count in both runs
//  S4 Skip: well-formed input => zero replacements and exact reference transcoding
//  S5 Skip: transcoding of the longest well-formed prefix is a prefix of the output
//  S6 Skip: input = well-formed P + ONE structurally complete ill-formed sequence X + well-formed S  =>  output = T(P) mark T(S), count 1
#include "vh.h"
#include "ref/utf.h"
#include <string>
#include "bitserializer/convert.h"
using namespace BitSerializer::Convert::Utf;
namespace Memory = BitSerializer::Memory;

// ---------------------------------------------------------------- reference side
struct R8 {
	typedef unsigned char unit; typedef char cchar; static constexpr size_t marklen = 3; static constexpr size_t maxper = 4;
	static size_t wf_prefix(const unit* p, size_t n, uint32_t* cps, size_t maxc, size_t* ncp) { return ref::utf8_wf_prefix(p, n, cps, maxc, ncp); }
	static size_t enc(uint32_t c, unit* o) { return ref::enc_utf8(c, o); }
	static bool valid(const unit* p, size_t n) { return ref::utf8_valid(p, n); }
	// length of a structurally complete (but ill-formed) sequence at p, 0 if none
	static size_t structural(const unit* p, size_t n) {
		if (n == 0) return 0;
		unsigned b = p[0]; size_t need;
		if (b < 0x80) return 0;
		if (b < 0xC0 || b >= 0xFE) return 1;             // lone continuation byte, FE, FF
		if (b < 0xE0) need = 1; else if (b < 0xF0) need = 2; else if (b < 0xF8) need = 3; else if (b < 0xFC) need = 4; else need = 5;
		if (n < 1 + need) return 0;
		for (size_t i = 1; i <= need; i++) if ((p[i] & 0xC0) != 0x80) return 0;
		uint32_t c; if (ref::utf8_seq(p, n, &c)) return 0;  // well-formed: not an error
		return 1 + need;
	}
};
struct R16 {
	typedef uint16_t unit; typedef char16_t cchar; static constexpr size_t marklen = 1; static constexpr size_t maxper = 2;
	static size_t wf_prefix(const unit* p, size_t n, uint32_t* cps, size_t maxc, size_t* ncp) { return ref::utf16_wf_prefix(p, n, cps, maxc, ncp); }
	static size_t enc(uint32_t c, unit* o) { return ref::enc_utf16(c, o); }
	static bool valid(const unit* p, size_t n) { return ref::utf16_valid(p, n); }
	static size_t structural(const unit* p, size_t n) {
		if (n == 0) return 0;
		if (p[0] >= 0xDC00 && p[0] <= 0xDFFF) return 1;                                   // lone low surrogate
		if (p[0] >= 0xD800 && p[0] <= 0xDBFF && n >= 2 && !(p[1] >= 0xDC00 && p[1] <= 0xDFFF)) return 1;   // high + non-low: only the high one is in error
		return 0;
	}
};
struct R32 {
	typedef uint32_t unit; typedef char32_t cchar; static constexpr size_t marklen = 1; static constexpr size_t maxper = 1;
	static size_t wf_prefix(const unit* p, size_t n, uint32_t* cps, size_t maxc, size_t* ncp) { return ref::utf32_wf_prefix(p, n, cps, maxc, ncp); }
	static size_t enc(uint32_t c, unit* o) { o[0] = c; return 1; }
	static bool valid(const unit* p, size_t n) { return ref::utf32_valid(p, n); }
	static size_t structural(const unit* p, size_t n) { return (n && !ref::is_scalar(p[0])) ? 1 : 0; }
};

enum Order { Native, LE, BE };
template <class S, class D, Order O, class TOutStr>
static inline auto decode(const typename S::unit* b, size_t n, TOutStr& s, UtfEncodingErrorPolicy pol, const typename D::cchar* mark, size_t* itpos, size_t* cnt) {
	const typename S::cchar* beg = reinterpret_cast<const typename S::cchar*>(b);
	UtfEncodingErrorCode ec;
	auto fin = [&](auto r) { *itpos = (size_t)(r.Iterator - beg); *cnt = r.InvalidSequencesCount; return r.ErrorCode; };
	if constexpr (sizeof(typename S::unit) == 1) ec = fin(Utf8::Decode(beg, beg + n, s, pol, mark));
	else if constexpr (sizeof(typename S::unit) == 2) {
		if constexpr (O == Native) ec = fin(Utf16::Decode(beg, beg + n, s, pol, mark));
		else if constexpr (O == LE) ec = fin(Utf16Le::Decode(beg, beg + n, s, pol, mark));
		else ec = fin(Utf16Be::Decode(beg, beg + n, s, pol, mark));
	} else {
		if constexpr (O == Native) ec = fin(Utf32::Decode(beg, beg + n, s, pol, mark));
		else if constexpr (O == LE) ec = fin(Utf32Le::Decode(beg, beg + n, s, pol, mark));
		else ec = fin(Utf32Be::Decode(beg, beg + n, s, pol, mark));
	}
	return ec;
}
template <class U> static inline U bswap(U v) { if constexpr (sizeof(U) == 2) return (U)((v >> 8) | (v << 8)); else if constexpr (sizeof(U) == 4) return __builtin_bswap32(v); else return v; }

// exact-extent option (C02_utf_exact.cpp): the source units live in a heap block of exactly n units, so that a read past the end
// of the input range is a memory-safety failure instead of an unnoticed read of the next array slot
#ifdef VH_EXACT_EXTENT
template <class SU> struct ExactUnits {
	SU* p;
	ExactUnits(const SU* src, size_t n, size_t cap) : p(static_cast<SU*>(::operator new(n * sizeof(SU)))) { for (size_t i = 0; i < cap; i++) if (i < n) p[i] = src[i]; }
	~ExactUnits() { ::operator delete(p); }
};
#define VH_VIEW(mem, n) ExactUnits<SU> ex_(mem, n, N); const SU* memv = ex_.p;
#else
#define VH_VIEW(mem, n) const SU* memv = mem;
#endif
template <class S, class D, Order O, size_t N> struct H {
	typedef typename S::unit SU; typedef typename D::unit DU;
	static constexpr size_t MAXOUT = D::maxper * N;   // no source unit can produce more target units than this
	// abstract units (host order) and the memory image handed to the library
	static size_t load(const unsigned char* in, SU* abs, SU* mem) {
		size_t n = in[0] <= N ? in[0] : N;   // total: lengths beyond the bound are clamped (the assumption restricts the solver to n <= N)
		for (size_t i = 0; i < N; i++) { SU v = vh::rd<SU>(in + 1 + i * sizeof(SU)); abs[i] = v; mem[i] = (O == BE) ? bswap(v) : v; }
		return n;
	}
	static size_t expect_of(const uint32_t* cps, size_t ncp, DU* e) { size_t k = 0; for (size_t i = 0; i < ncp; i++) k += D::enc(cps[i], e + k); return k; }
	template <class Str> static bool starts_with(const Str& s, const DU* e, size_t ne) {
		if (s.size() < ne) return false;
		for (size_t i = 0; i < ne; i++) if ((DU)s[i] != e[i]) return false;
		return true;
	}
	static int prop_throw(const unsigned char* in, unsigned char* out) {
		SU abs[N], mem[N]; size_t n = load(in, abs, mem);
		std::basic_string<typename D::cchar> s; s.reserve(MAXOUT + 8);
		verif_nogrow(&s); verif_symbolic_phase();
		size_t it = 0, cnt = 0;
		VH_VIEW(mem, n)
		UtfEncodingErrorCode ec = decode<S, D, O>(memv, n, s, UtfEncodingErrorPolicy::ThrowError, nullptr, &it, &cnt);
		uint32_t cps[N]; size_t ncp = 0; size_t wf = S::wf_prefix(abs, n, cps, N, &ncp);
		DU e[MAXOUT]; size_t ne = expect_of(cps, ncp, e);
		out[0] = (unsigned char)ec; out[1] = (unsigned char)it; out[2] = (unsigned char)s.size(); out[3] = (unsigned char)cnt;
		bool exact = s.size() == ne && starts_with(s, e, ne);
		if (wf == n) return ec == UtfEncodingErrorCode::Success && it == n && cnt == 0 && exact;
		return ec != UtfEncodingErrorCode::Success && it == wf && exact;
	}
	static int prop_skip(const unsigned char* in, unsigned char* out) {
		SU abs[N], mem[N]; size_t n = load(in, abs, mem);
		std::basic_string<typename D::cchar> a, b; a.reserve(MAXOUT + 8); b.reserve(MAXOUT + 8);
		static const typename D::cchar empty[1] = { 0 };
		verif_nogrow(&a); verif_nogrow(&b); verif_symbolic_phase();
		size_t itA = 0, cntA = 0, itB = 0, cntB = 0;
		VH_VIEW(mem, n)
		UtfEncodingErrorCode ecA = decode<S, D, O>(memv, n, a, UtfEncodingErrorPolicy::Skip, Detail::GetDefaultErrorMark<typename D::cchar>(), &itA, &cntA);
		UtfEncodingErrorCode ecB = decode<S, D, O>(memv, n, b, UtfEncodingErrorPolicy::Skip, empty, &itB, &cntB);
		uint32_t cps[N]; size_t ncp = 0; size_t wf = S::wf_prefix(abs, n, cps, N, &ncp);
		DU e[MAXOUT]; size_t ne = expect_of(cps, ncp, e);
		out[0] = (unsigned char)ecA; out[1] = (unsigned char)itA; out[2] = (unsigned char)a.size(); out[3] = (unsigned char)cntA;
		out[4] = (unsigned char)ecB; out[5] = (unsigned char)itB; out[6] = (unsigned char)b.size(); out[7] = (unsigned char)cntB;
		// S1
		if (ecA == UtfEncodingErrorCode::Success) { if (itA != n) return 0; }
		else if (ecA == UtfEncodingErrorCode::UnexpectedEnd) { if (itA > n || itA < wf || wf == n) return 0; }
		else return 0;
		if (ecB != ecA || itB != itA) return 0;
		// S2
		DU buf[MAXOUT + 8];
		if (a.size() > MAXOUT + 8) return 0;
		for (size_t i = 0; i < a.size(); i++) buf[i] = (DU)a[i];
		if (!D::valid(buf, a.size())) return 0;
		// S3
		if (cntA != cntB) return 0;
		if (a.size() != b.size() + cntA * D::marklen) return 0;
		// S4 + S5
		if (!starts_with(a, e, ne)) return 0;
		if (wf == n && !(cntA == 0 && a.size() == ne && ecA == UtfEncodingErrorCode::Success)) return 0;
		// S6
		if (wf < n) {
			size_t L = S::structural(abs + wf, n - wf);
			if (L) {
				uint32_t cps2[N]; size_t ncp2 = 0; size_t wf2 = S::wf_prefix(abs + wf + L, n - wf - L, cps2, N, &ncp2);
				if (wf + L + wf2 == n) {
					DU e2[MAXOUT]; size_t ne2 = expect_of(cps2, ncp2, e2);
					if (cntA != 1 || ecA != UtfEncodingErrorCode::Success) return 0;
					if (a.size() != ne + D::marklen + ne2) return 0;
					for (size_t i = 0; i < ne2; i++) if ((DU)a[ne + D::marklen + i] != e2[i]) return 0;
					DU m[4]; size_t ml = D::enc(0x2610, m);
					for (size_t i = 0; i < ml; i++) if ((DU)a[ne + i] != m[i]) return 0;
				}
			}
		}
		return 1;
	}
};
template <size_t N> static inline int len_ok(const unsigned char* in) { return in[0] <= N; }

#define DEF(name, S, D, O, N) \
	VH_EXPORT int va_##name(const unsigned char* in) { return len_ok<N>(in); } \
	VH_EXPORT int vp_##name##_throw(const unsigned char* in, unsigned char* out) { return H<S, D, O, N>::prop_throw(in, out); } \
	VH_EXPORT int vp_##name##_skip(const unsigned char* in, unsigned char* out) { return H<S, D, O, N>::prop_skip(in, out); }

DEF(h12a_8to16, R8, R16, Native, 4)
DEF(h12a_8to32, R8, R32, Native, 4)
DEF(h12b_16to8, R16, R8, Native, 3)
DEF(h12b_16to32, R16, R32, Native, 3)
DEF(h12b_16le_to8, R16, R8, LE, 3)
DEF(h12b_16be_to32, R16, R32, BE, 3)
DEF(h12c_32to8, R32, R8, Native, 2)
DEF(h12c_32to16, R32, R16, Native, 2)
DEF(h12c_32be_to8, R32, R8, BE, 2)
DEF(h12c_32le_to16, R32, R16, LE, 2)
DEF(h12a_8to16_T, R8, R16, Native, 5)
DEF(h12a_8to32_T, R8, R32, Native, 5)
DEF(h12b_16to8_T, R16, R8, Native, 4)
DEF(h12c_32to16_T, R32, R16, Native, 3)

//@ OBL {"name": "h12a_8to16_throw", "prop": "vp_h12a_8to16_throw", "assume": "va_h12a_8to16", "in": 5, "out": 8, "unwind": 18, "bounds": "every UTF-8 byte string of length <= 4", "desc": "Utf8::Decode -> UTF-16, ThrowError (T1)", "unwind_fn": {"BitSerializer": 6, "ref": 6}, "family": "h12a"}
//@ OBL {"name": "h12a_8to16_skip", "prop": "vp_h12a_8to16_skip", "assume": "va_h12a_8to16", "in": 5, "out": 8, "unwind": 18, "bounds": "every UTF-8 byte string of length <= 4", "desc": "Utf8::Decode -> UTF-16, Skip default+empty mark (S1-S6)", "unwind_fn": {"BitSerializer": 6, "ref": 6}, "family": "h12a"}
//@ OBL {"name": "h12a_8to32_throw", "prop": "vp_h12a_8to32_throw", "assume": "va_h12a_8to32", "in": 5, "out": 8, "unwind": 14, "bounds": "every UTF-8 byte string of length <= 4", "desc": "Utf8::Decode -> UTF-32, ThrowError (T1)", "unwind_fn": {"BitSerializer": 6, "ref": 6}, "family": "h12a"}
//@ OBL {"name": "h12a_8to32_skip", "prop": "vp_h12a_8to32_skip", "assume": "va_h12a_8to32", "in": 5, "out": 8, "unwind": 14, "bounds": "every UTF-8 byte string of length <= 4", "desc": "Utf8::Decode -> UTF-32, Skip (S1-S6)", "unwind_fn": {"BitSerializer": 6, "ref": 6}, "family": "h12a"}
//@ OBL {"name": "h12b_16to8_throw", "prop": "vp_h12b_16to8_throw", "assume": "va_h12b_16to8", "in": 7, "out": 8, "unwind": 22, "bounds": "every sequence of <= 3 UTF-16 units", "desc": "Utf16::Decode -> UTF-8 (Utf8::Encode), ThrowError (T1)", "unwind_fn": {"BitSerializer": 5, "ref": 5}, "family": "h12b"}
//@ OBL {"name": "h12b_16to8_skip", "prop": "vp_h12b_16to8_skip", "assume": "va_h12b_16to8", "in": 7, "out": 8, "unwind": 22, "bounds": "every sequence of <= 3 UTF-16 units", "desc": "Utf16::Decode -> UTF-8, Skip (S1-S6)", "unwind_fn": {"BitSerializer": 5, "ref": 5}, "family": "h12b"}
//@ OBL {"name": "h12b_16to32_throw", "prop": "vp_h12b_16to32_throw", "assume": "va_h12b_16to32", "in": 7, "out": 8, "unwind": 13, "bounds": "every sequence of <= 3 UTF-16 units", "desc": "Utf16::Decode -> UTF-32, ThrowError (T1)", "unwind_fn": {"BitSerializer": 5, "ref": 5}, "family": "h12b"}
//@ OBL {"name": "h12b_16to32_skip", "prop": "vp_h12b_16to32_skip", "assume": "va_h12b_16to32", "in": 7, "out": 8, "unwind": 13, "bounds": "every sequence of <= 3 UTF-16 units", "desc": "Utf16::Decode -> UTF-32, Skip (S1-S6)", "unwind_fn": {"BitSerializer": 5, "ref": 5}, "family": "h12b"}
//@ OBL {"name": "h12b_16le_to8_throw", "prop": "vp_h12b_16le_to8_throw", "assume": "va_h12b_16le_to8", "in": 7, "out": 8, "unwind": 22, "bounds": "every sequence of <= 3 UTF-16LE units", "desc": "Utf16Le::Decode (iterator adapter) -> UTF-8, ThrowError", "unwind_fn": {"BitSerializer": 5, "ref": 5}, "family": "h12b"}
//@ OBL {"name": "h12b_16le_to8_skip", "prop": "vp_h12b_16le_to8_skip", "assume": "va_h12b_16le_to8", "in": 7, "out": 8, "unwind": 22, "bounds": "every sequence of <= 3 UTF-16LE units", "desc": "Utf16Le::Decode -> UTF-8, Skip", "unwind_fn": {"BitSerializer": 5, "ref": 5}, "family": "h12b"}
//@ OBL {"name": "h12b_16be_to32_throw", "prop": "vp_h12b_16be_to32_throw", "assume": "va_h12b_16be_to32", "in": 7, "out": 8, "unwind": 13, "bounds": "every sequence of <= 3 UTF-16BE units", "desc": "Utf16Be::Decode (byte-swapping iterator) -> UTF-32, ThrowError", "unwind_fn": {"BitSerializer": 5, "ref": 5}, "family": "h12b"}
//@ OBL {"name": "h12b_16be_to32_skip", "prop": "vp_h12b_16be_to32_skip", "assume": "va_h12b_16be_to32", "in": 7, "out": 8, "unwind": 13, "bounds": "every sequence of <= 3 UTF-16BE units", "desc": "Utf16Be::Decode -> UTF-32, Skip", "unwind_fn": {"BitSerializer": 5, "ref": 5}, "family": "h12b"}
//@ OBL {"name": "h12c_32to8_throw", "prop": "vp_h12c_32to8_throw", "assume": "va_h12c_32to8", "in": 9, "out": 8, "unwind": 18, "bounds": "every sequence of <= 2 UTF-32 units (all 2^32 values each)", "desc": "Utf32::Decode -> UTF-8, ThrowError", "unwind_fn": {"BitSerializer": 4, "ref": 4}, "family": "h12c"}
//@ OBL {"name": "h12c_32to8_skip", "prop": "vp_h12c_32to8_skip", "assume": "va_h12c_32to8", "in": 9, "out": 8, "unwind": 18, "bounds": "every sequence of <= 2 UTF-32 units", "desc": "Utf32::Decode -> UTF-8, Skip", "unwind_fn": {"BitSerializer": 4, "ref": 4}, "family": "h12c"}
//@ OBL {"name": "h12c_32to16_throw", "prop": "vp_h12c_32to16_throw", "assume": "va_h12c_32to16", "in": 9, "out": 8, "unwind": 14, "bounds": "every sequence of <= 2 UTF-32 units", "desc": "Utf32::Decode -> UTF-16 (Utf16::Encode), ThrowError", "unwind_fn": {"BitSerializer": 4, "ref": 4}, "family": "h12c"}
//@ OBL {"name": "h12c_32to16_skip", "prop": "vp_h12c_32to16_skip", "assume": "va_h12c_32to16", "in": 9, "out": 8, "unwind": 14, "bounds": "every sequence of <= 2 UTF-32 units", "desc": "Utf32::Decode -> UTF-16, Skip", "unwind_fn": {"BitSerializer": 4, "ref": 4}, "family": "h12c"}
//@ OBL {"name": "h12c_32be_to8_throw", "prop": "vp_h12c_32be_to8_throw", "assume": "va_h12c_32be_to8", "in": 9, "out": 8, "unwind": 18, "bounds": "every sequence of <= 2 UTF-32BE units", "desc": "Utf32Be::Decode -> UTF-8, ThrowError", "unwind_fn": {"BitSerializer": 4, "ref": 4}, "family": "h12c"}
//@ OBL {"name": "h12c_32le_to16_skip", "prop": "vp_h12c_32le_to16_skip", "assume": "va_h12c_32le_to16", "in": 9, "out": 8, "unwind": 14, "bounds": "every sequence of <= 2 UTF-32LE units", "desc": "Utf32Le::Decode -> UTF-16, Skip", "unwind_fn": {"BitSerializer": 4, "ref": 4}, "family": "h12c"}
//@ OBL {"name": "h12a_8to16_T_throw", "tier": "thorough", "prop": "vp_h12a_8to16_T_throw", "assume": "va_h12a_8to16_T", "in": 6, "out": 8, "unwind": 20, "cap_s": 1800, "bounds": "every UTF-8 byte string of length <= 5", "desc": "Utf8::Decode -> UTF-16, ThrowError", "unwind_fn": {"BitSerializer": 7, "ref": 7}, "family": "h12a"}
//@ OBL {"name": "h12a_8to32_T_skip", "tier": "thorough", "prop": "vp_h12a_8to32_T_skip", "assume": "va_h12a_8to32_T", "in": 6, "out": 8, "unwind": 15, "cap_s": 1800, "bounds": "every UTF-8 byte string of length <= 5", "desc": "Utf8::Decode -> UTF-32, Skip", "unwind_fn": {"BitSerializer": 7, "ref": 7}, "family": "h12a"}
//@ OBL {"name": "h12b_16to8_T_skip", "tier": "thorough", "prop": "vp_h12b_16to8_T_skip", "assume": "va_h12b_16to8_T", "in": 9, "out": 8, "unwind": 26, "cap_s": 1800, "bounds": "every sequence of <= 4 UTF-16 units", "desc": "Utf16::Decode -> UTF-8, Skip", "unwind_fn": {"BitSerializer": 6, "ref": 6}, "family": "h12b"}
//@ OBL {"name": "h12c_32to16_T_skip", "tier": "thorough", "prop": "vp_h12c_32to16_T_skip", "assume": "va_h12c_32to16_T", "in": 13, "out": 8, "unwind": 16, "cap_s": 1800, "bounds": "every sequence of <= 3 UTF-32 units", "desc": "Utf32::Decode -> UTF-16, Skip", "unwind_fn": {"BitSerializer": 5, "ref": 5}, "family": "h12c"}
// Vectors from the repo's own tests (utf8_encoding_tests.cpp etc.) and Unicode Table 3-7 boundary samples, for translation validation
//@ VEC * 0441e282ac00
//@ VEC * 04f09f9880
//@ VEC * 04f7ffbfbf
//@ VEC * 03eda080
//@ VEC * 02c080
//@ VEC * 0300d800e0
//@ VEC * 0300d800dc41
//@ VEC * 0200d8000000e00000
//@ VEC * 02ffff1000410000
