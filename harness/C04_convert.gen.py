#!/usr/bin/env python3
# Generates the H04a harness: Convert::Detail::To<S,T> for all 132 ordered pairs of arithmetic types.
TYPES = [('bool','bool',1,'b'),('char','char',1,'s'),('i8','int8_t',1,'s'),('u8','uint8_t',1,'u'),('i16','int16_t',2,'s'),('u16','uint16_t',2,'u'),
         ('i32','int32_t',4,'s'),('u32','uint32_t',4,'u'),('i64','int64_t',8,'s'),('u64','uint64_t',8,'u'),('f32','float',4,'f'),('f64','double',8,'f')]
print('''//@ PROPERTY C04
// H04a: Convert::Detail::To<TSource,TTarget>(const TSource&, TTarget&) (convert_fundamental.h) for every ordered pair of
// {bool,char,int8..uint64,float,double}.  in[0..8) = source value (full width, symbolic), in[8..16) = previous target value.
// Oracle (independent, via __int128 / IEEE comparisons): exact value, or nearest representable (float targets), or
// out_of_range / invalid_argument with the target untouched.  Nothing else.
#include "vh.h"
#include <limits>
#include "bitserializer/convert.h"
using namespace BitSerializer;
typedef __int128 i128;
template <class T> static inline bool same_bits(const T& a, const T& b) { return std::memcmp(&a, &b, sizeof(T)) == 0; }
template <class S, class T> static inline int run(const unsigned char* in, unsigned char* out, S& s, T& told, T& t) {
	s = vh::rd<S>(in); told = vh::rd<T>(in + 8); t = told;
	int rc = vh::outcome([&] { Convert::Detail::To(s, t); });
	vh::wr(out, t); out[8] = (unsigned char)rc;
	return rc;
}
// integer -> integer (bool counts as the integers 0/1)
template <class S, class T> static inline int prop_int_int(const unsigned char* in, unsigned char* out) {
	S s; T told, t; int rc = run<S, T>(in, out, s, told, t);
	i128 v = (i128)s;
	bool fits = std::is_same_v<T, bool> ? (v == 0 || v == 1) : (v >= (i128)std::numeric_limits<T>::lowest() && v <= (i128)std::numeric_limits<T>::max());
	if (fits) return rc == vh::OK && (i128)t == v;
	return rc == vh::OUT_OF_RANGE && same_bits(t, told);
}
// floating -> integer/bool: never allowed
template <class S, class T> static inline int prop_fp_int(const unsigned char* in, unsigned char* out) {
	S s; T told, t; int rc = run<S, T>(in, out, s, told, t);
	return rc == vh::INVALID_ARGUMENT && same_bits(t, told);
}
// integer -> floating: exact, nearest representable, or out_of_range with target untouched
template <class S, class T> static inline int prop_int_fp(const unsigned char* in, unsigned char* out) {
	S s; T told, t; int rc = run<S, T>(in, out, s, told, t);
	if (rc == vh::OK) return t == static_cast<T>(s);
	return rc == vh::OUT_OF_RANGE && same_bits(t, told);
}
// known finding F19: the library's cast-and-compare-back converts a rounded-up value that no longer fits the source type
template <class S, class T> static inline int known_int_fp(const unsigned char* in) {
	if constexpr (std::is_same_v<S, bool>) return 0; else {
	S s = vh::rd<S>(in);
	constexpr int bits = std::numeric_limits<S>::digits;      // 63 for int64, 64 for uint64 ...
	T lim = static_cast<T>(1); for (int i = 0; i < bits; i++) lim *= 2;   // 2^bits, exact
	return static_cast<T>(s) == lim ? 1 : 0; }
}
static inline int prop_f32_f64(const unsigned char* in, unsigned char* out) {
	float s; double told, t; int rc = run<float, double>(in, out, s, told, t);
	if (rc != vh::OK) return 0;
	return (s != s) ? (t != t) : (t == static_cast<double>(s));
}
static inline int assume_finite_f64(const unsigned char* in) { double s = vh::rd<double>(in); return s == s && s - s == 0; }
static inline int prop_f64_f32(const unsigned char* in, unsigned char* out) {
	double s; float told, t; int rc = run<double, float>(in, out, s, told, t);
	const double mx = std::numeric_limits<float>::max();
	if (s >= -mx && s <= mx) return rc == vh::OK && t == static_cast<float>(s);
	return rc == vh::OUT_OF_RANGE && same_bits(t, told);
}
''')
for (sn, sc, sw, sk) in TYPES:
    for (tn, tc, tw, tk) in TYPES:
        if sn == tn: continue
        name = 'h04a_%s_%s' % (sn, tn)
        obl = {'name': name, 'family': 'h04a', 'in': 16, 'out': 16, 'unwind': 65, 'tier': 'quick',
               'bounds': 'source value: all %d-bit patterns of %s; previous target value symbolic' % (sw * 8, sc),
               'desc': 'Convert::Detail::To<%s,%s>: exact / nearest / policy exception, target untouched on failure' % (sc, tc)}
        if sk != 'f' and tk != 'f':
            body = 'return prop_int_int<%s, %s>(in, out);' % (sc, tc)
        elif sk == 'f' and tk != 'f':
            body = 'return prop_fp_int<%s, %s>(in, out);' % (sc, tc)
        elif sk != 'f' and tk == 'f':
            body = 'return prop_int_fp<%s, %s>(in, out);' % (sc, tc)
            print('VH_EXPORT int vk_%s(const unsigned char* in) { return known_int_fp<%s, %s>(in); }' % (name, sc, tc))
            obl['known'] = 'vk_' + name
        elif sn == 'f32':
            body = 'return prop_f32_f64(in, out);'
        else:
            body = 'return prop_f64_f32(in, out);'
            print('VH_EXPORT int va_%s(const unsigned char* in) { return assume_finite_f64(in); }' % name)
            obl['assume'] = 'va_' + name
            obl['bounds'] += '; NaN/Inf sources excluded (not numbers in the property sense)'
        obl['prop'] = 'vp_' + name
        import json
        print('VH_EXPORT int vp_%s(const unsigned char* in, unsigned char* out) { %s }' % (name, body))
        print('//@ OBL ' + json.dumps(obl))
