//@ PROPERTY C13
//@ CXXFLAGS -fno-access-control
// H13e: CEncodedStreamReader::ReadChunk / DecodeChunk at the END OF THE STREAM, reader state constructed directly (the obligations
// that let the bytes arrive through the iostream model - h13b/h13c in C13_streams.cpp - have no verdict).  State: the stream is
// exhausted (an empty memory stream after the constructor's read attempt: eofbit|failbit), the detected encoding is E, and the
// encoded buffer holds 'a' followed by the first CUT bytes of a character c whose encoding is longer than CUT - "a stream cut in
// the middle of a character".  That this is the state the reader is in after reading such a stream is NOT decided here (it is the
// subject of the open obligations); what is decided is the step the property statement is about:
//   ThrowError -> ReadChunk reports DecodeError (no hang, no silent loss), the decoded prefix "a" is delivered
//   Skip       -> "a" + a non-empty error mark, then EndFile
// -fno-access-control gives the harness access to the private members (no change to the repository).
// in[1] bit 1 = policy, in[3..7) = c
#include "vh.h"
#include "vh_stream.h"
#include "ref/utf.h"
#include <string>
#include "bitserializer/convert.h"
using namespace BitSerializer::Convert::Utf;
static inline size_t put_unit(unsigned char* o, uint32_t u, int enc) {       // one code unit in encoding enc (1..4: 16le,16be,32le,32be)
	if (enc == 1) { o[0] = (unsigned char)u; o[1] = (unsigned char)(u >> 8); return 2; }
	if (enc == 2) { o[1] = (unsigned char)u; o[0] = (unsigned char)(u >> 8); return 2; }
	if (enc == 3) { o[0] = (unsigned char)u; o[1] = (unsigned char)(u >> 8); o[2] = (unsigned char)(u >> 16); o[3] = (unsigned char)(u >> 24); return 4; }
	o[3] = (unsigned char)u; o[2] = (unsigned char)(u >> 8); o[1] = (unsigned char)(u >> 16); o[0] = (unsigned char)(u >> 24); return 4;
}
static inline size_t put_scalar(unsigned char* o, uint32_t c, int enc) {
	if (enc == 0) return ref::enc_utf8(c, o);
	if (enc <= 2) { uint16_t u[2]; size_t k = ref::enc_utf16(c, u); size_t n = 0; for (size_t i = 0; i < k; i++) n += put_unit(o + n, u[i], enc); return n; }
	return put_unit(o, c, enc);
}
static inline size_t put_bom(unsigned char* o, int enc) {
	static const unsigned char b0[3] = { 0xEF, 0xBB, 0xBF };
	if (enc == 0) { o[0] = b0[0]; o[1] = b0[1]; o[2] = b0[2]; return 3; }
	return put_scalar(o, 0xFEFF, enc);
}
static const UtfType ENC[5] = { UtfType::Utf8, UtfType::Utf16le, UtfType::Utf16be, UtfType::Utf32le, UtfType::Utf32be };

template <int E, int CUT> static inline int prop_state(const unsigned char* in, unsigned char* out) {
	bool thr = (in[1] & 2) != 0;
	uint32_t c = vh::rd<uint32_t>(in + 3) & 0x1FFFFF;
	unsigned char enc[4] = { 0, 0, 0, 0 }; size_t len = put_scalar(enc, c, E);
	if (!(ref::is_scalar(c) && len > (size_t)CUT)) return 1;               // outside the assumption
	static const char none[1] = { 0 };
	vh::MemIStream is(none, 0);
	std::u16string s; s.reserve(24); verif_nogrow(&s);
	CEncodedStreamReader<char16_t, 32> rd(is, thr ? UtfEncodingErrorPolicy::ThrowError : UtfEncodingErrorPolicy::Skip);
	if (!is.eof()) return 0;
	{	// the state after the last refill
		unsigned char a[4]; size_t na = put_scalar(a, 'a', E);
		size_t n = 0;
		for (size_t i = 0; i < na; i++) rd.mEncodedBuffer[n++] = (char)a[i];
		for (size_t i = 0; i < (size_t)CUT; i++) rd.mEncodedBuffer[n++] = (char)enc[i];
		rd.mUtfType = ENC[E]; rd.mStartDataPtr = rd.mEncodedBuffer; rd.mEndDataPtr = rd.mEncodedBuffer + n;
	}
	verif_symbolic_phase();
	int rounds = 0; bool ended = false; bool err = false;
	for (; rounds < 3; rounds++) {
		auto r = rd.ReadChunk(s);
		if (r == EncodedStreamReadResult::EndFile) { ended = true; break; }
		if (r == EncodedStreamReadResult::DecodeError) { err = true; break; }
	}
	out[0] = (unsigned char)rounds; out[1] = ended; out[2] = err; out[3] = (unsigned char)s.size();
	if (thr) return err && !ended && s.size() >= 1 && s[0] == u'a';
	return ended && !err && s.size() >= 2 && s[0] == u'a';
}
VH_EXPORT int va_h13e_8_1(const unsigned char* in) { uint32_t c = vh::rd<uint32_t>(in + 3) & 0x1FFFFF; return ref::is_scalar(c) && c >= 0x80; }
VH_EXPORT int va_h13e_8_2(const unsigned char* in) { uint32_t c = vh::rd<uint32_t>(in + 3) & 0x1FFFFF; return ref::is_scalar(c) && c >= 0x800; }
VH_EXPORT int va_h13e_sup(const unsigned char* in) { uint32_t c = vh::rd<uint32_t>(in + 3) & 0x1FFFFF; return ref::is_scalar(c) && c >= 0x10000; }
VH_EXPORT int vp_h13e_8_1(const unsigned char* in, unsigned char* out) { return prop_state<0, 1>(in, out); }
VH_EXPORT int vp_h13e_8_2(const unsigned char* in, unsigned char* out) { return prop_state<0, 2>(in, out); }
VH_EXPORT int vp_h13e_8_3(const unsigned char* in, unsigned char* out) { return prop_state<0, 3>(in, out); }
VH_EXPORT int vp_h13e_16le(const unsigned char* in, unsigned char* out) { return prop_state<1, 2>(in, out); }
VH_EXPORT int vp_h13e_16be(const unsigned char* in, unsigned char* out) { return prop_state<2, 2>(in, out); }
//@ OBL {"name": "h13e_8_1", "prop": "vp_h13e_8_1", "assume": "va_h13e_8_1", "in": 8, "out": 8, "unwind": 8, "unwind_models": 34, "fs": 32, "mem_gb": 30, "cap_s": 900, "backends": ["default"], "tier": "open", "bounds": "UTF-8, 'a' + first byte of every scalar >= U+0080; both error policies; reader state constructed directly: stream exhausted (eofbit|failbit), encoding already detected, chunk size 32", "desc": "CEncodedStreamReader<char16_t,32>::ReadChunk on a stream cut inside a character: ThrowError -> DecodeError (prefix delivered, no spin), Skip -> prefix + mark, then EndFile"}
//@ OBL {"name": "h13e_8_2", "prop": "vp_h13e_8_2", "assume": "va_h13e_8_2", "in": 8, "out": 8, "unwind": 8, "unwind_models": 34, "fs": 32, "cap_s": 900, "backends": ["default", "kissat"], "tier": "open", "bounds": "UTF-8, 'a' + first 2 bytes of every scalar >= U+0800; both error policies; reader state constructed directly: stream exhausted (eofbit|failbit), encoding already detected, chunk size 32", "desc": "CEncodedStreamReader<char16_t,32>::ReadChunk on a stream cut inside a character: ThrowError -> DecodeError (prefix delivered, no spin), Skip -> prefix + mark, then EndFile"}
//@ OBL {"name": "h13e_8_3", "prop": "vp_h13e_8_3", "assume": "va_h13e_sup", "in": 8, "out": 8, "unwind": 8, "unwind_models": 34, "fs": 32, "cap_s": 900, "backends": ["default", "kissat"], "tier": "open", "bounds": "UTF-8, 'a' + first 3 bytes of every supplementary scalar; both error policies; reader state constructed directly: stream exhausted (eofbit|failbit), encoding already detected, chunk size 32", "desc": "CEncodedStreamReader<char16_t,32>::ReadChunk on a stream cut inside a character: ThrowError -> DecodeError (prefix delivered, no spin), Skip -> prefix + mark, then EndFile"}
//@ OBL {"name": "h13e_16le", "prop": "vp_h13e_16le", "assume": "va_h13e_sup", "in": 8, "out": 8, "unwind": 8, "unwind_models": 34, "fs": 32, "cap_s": 900, "backends": ["default", "kissat"], "tier": "open", "bounds": "UTF-16LE, 'a' + high surrogate of every supplementary scalar; both error policies; reader state constructed directly: stream exhausted (eofbit|failbit), encoding already detected, chunk size 32", "desc": "CEncodedStreamReader<char16_t,32>::ReadChunk on a stream cut inside a character: ThrowError -> DecodeError (prefix delivered, no spin), Skip -> prefix + mark, then EndFile"}
//@ OBL {"name": "h13e_16be", "prop": "vp_h13e_16be", "assume": "va_h13e_sup", "in": 8, "out": 8, "unwind": 8, "unwind_models": 34, "fs": 32, "cap_s": 900, "backends": ["default", "kissat"], "tier": "open", "bounds": "UTF-16BE, 'a' + high surrogate of every supplementary scalar; both error policies; reader state constructed directly: stream exhausted (eofbit|failbit), encoding already detected, chunk size 32", "desc": "CEncodedStreamReader<char16_t,32>::ReadChunk on a stream cut inside a character: ThrowError -> DecodeError (prefix delivered, no spin), Skip -> prefix + mark, then EndFile"}
//@ VEC * 0002006100e9000000
//@ VEC * 000000000000010000
//@ VEC * 00020000ac20000000
