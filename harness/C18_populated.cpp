//@ PROPERTY C18
//@ MODELDEF VERIF_STRLEN_ZERO
// C18: loading into a populated target equals loading into a fresh one.
//  h18a  Detail::SerializeContainer (generic_container.h - the algorithm behind vector/deque/list/... loading) instantiated with a
//        harness array scope (symbolic estimated size E in 0..4 that may DIFFER from the number of available items K in 0..4, as
//        for CSV / approximate sizes) and a bounded vector-like container with symbolic prior content of size P in 0..4:
//        the final content is exactly the K loaded items for every (P, E, K) - no stale element survives, nothing loaded is lost.
//  h18b  std::optional / std::unique_ptr loaders (types/std/optional.h, memory.h) with a harness archive whose value loader
//        returns a symbolic "loaded": prior state {empty, engaged(stale)} -> engaged with the loaded value, or empty; never stale.
#include "vh.h"
#include <optional>
#include <memory>
#include "bitserializer/bit_serializer.h"
#include "bitserializer/serialization_detail/generic_container.h"
#include "bitserializer/types/std/optional.h"
#include "bitserializer/types/std/memory.h"
using namespace BitSerializer;
// ---- bounded vector-like container (capacity 8, int elements; mimics the std::vector members SerializeContainer uses)
struct BVec {
	typedef int value_type; typedef int* iterator;
	int d[8]; size_t n = 0; bool overflow = false;
	iterator begin() { return d; } iterator end() { return d + n; }
	size_t size() const { return n; }
	void resize(size_t k) { if (k > 8) { overflow = true; k = 8; } for (size_t i = n; i < k; i++) d[i] = 0; n = k; }
	int& emplace_back() { if (n >= 8) { overflow = true; return d[7]; } d[n] = 0; return d[n++]; }
};
// ---- harness array scope: K items with symbolic values, estimated size E
struct MockArr {
	static constexpr bool IsLoading() { return true; }
	static constexpr bool IsSaving() { return false; }
	size_t est, k, pos = 0; const int* items;
	size_t GetEstimatedSize() const { return est; }
	bool IsEnd() const { return pos == k; }
};
static bool Serialize(MockArr& a, int& v) { if (a.pos < a.k) { v = a.items[a.pos++]; return true; } return false; }
VH_EXPORT int vp_h18a_container(const unsigned char* in, unsigned char* out) {
	size_t P = in[0] % 5, E = in[1] % 5, K = in[2] % 5;
	int items[4]; for (int i = 0; i < 4; i++) items[i] = 100 + in[3 + i];
	BVec c; c.n = P; for (size_t i = 0; i < 8; i++) c.d[i] = (i < P) ? (int)(200 + in[7 + (i & 3)]) : -7;      // stale prior content
	MockArr arr{ E, K, 0, items };
	verif_symbolic_phase();
	Detail::SerializeContainer(arr, c);
	out[0] = (unsigned char)c.n; for (int i = 0; i < 4; i++) out[1 + i] = (unsigned char)c.d[i];
	if (c.overflow || c.n != K || !arr.IsEnd()) return 0;
	for (size_t i = 0; i < 4; i++) if (i < K && c.d[i] != items[i]) return 0;
	return 1;
}
// ---- optional / unique_ptr with a mock archive
struct MockVal {
	static constexpr bool IsLoading() { return true; }
	static constexpr bool IsSaving() { return false; }
	bool loaded; int value;
};
static bool Serialize(MockVal& a, int& v) { if (a.loaded) v = a.value; return a.loaded; }
template <class K> static bool Serialize(MockVal& a, K&&, int& v) { if (a.loaded) v = a.value; return a.loaded; }
VH_EXPORT int vp_h18b_optional(const unsigned char* in, unsigned char* out) {
	MockVal a{ (in[0] & 1) != 0, vh::rd<int32_t>(in + 1) };
	std::optional<int> o; if (in[0] & 2) o = vh::rd<int32_t>(in + 5);          // prior: empty or engaged with a stale value
	bool keyed = (in[0] & 4) != 0;
	bool r = keyed ? BitSerializer::Serialize(a, 7, o) : BitSerializer::Serialize(a, o);
	out[0] = r; out[1] = o.has_value();
	if (a.loaded) return r && o.has_value() && *o == a.value;
	return !r && !o.has_value();
}
VH_EXPORT int vp_h18b_unique(const unsigned char* in, unsigned char* out) {
	MockVal a{ (in[0] & 1) != 0, vh::rd<int32_t>(in + 1) };
	std::unique_ptr<int> p; if (in[0] & 2) p = std::make_unique<int>(vh::rd<int32_t>(in + 5));
	bool keyed = (in[0] & 4) != 0;
	bool r = keyed ? BitSerializer::Serialize(a, 7, p) : BitSerializer::Serialize(a, p);
	out[0] = r; out[1] = p != nullptr;
	if (a.loaded) return r && p && *p == a.value;
	return !r && !p;
}
VH_EXPORT int vp_h18b_shared(const unsigned char* in, unsigned char* out) {
	MockVal a{ (in[0] & 1) != 0, vh::rd<int32_t>(in + 1) };
	std::shared_ptr<int> p; if (in[0] & 2) p = std::make_shared<int>(vh::rd<int32_t>(in + 5));
	bool r = BitSerializer::Serialize(a, p);
	out[0] = r; out[1] = p != nullptr;
	if (a.loaded) return r && p && *p == a.value;
	return !r && !p;
}
//@ OBL {"name":"h18a_container","prop":"vp_h18a_container","in":12,"out":8,"unwind":10,"fs":32,"cap_s":900,"bounds":"prior size P, estimated size E and available items K each in 0..4 (all 125 combinations), symbolic item and stale values","desc":"SerializeContainer: final content == the K loaded items for every prior state and every (possibly wrong) size estimate"}
//@ OBL {"name":"h18b_optional","prop":"vp_h18b_optional","in":12,"out":8,"unwind":4,"fs":32,"bounds":"prior empty/engaged(stale), loaded flag, with and without key, every value","desc":"std::optional loader: engaged with the loaded value, or reset - never the stale value"}
//@ OBL {"name":"h18b_unique","prop":"vp_h18b_unique","in":12,"out":8,"unwind":4,"fs":32,"cbmc":["--memory-leak-check"],"bounds":"prior null/non-null(stale), loaded flag, with and without key","desc":"std::unique_ptr loader: points to the loaded value, or reset; no leak"}
//@ OBL {"name":"h18b_shared","prop":"vp_h18b_shared","in":12,"out":8,"unwind":4,"fs":32,"bounds":"prior null/non-null(stale), loaded flag","desc":"std::shared_ptr loader"}
//@ VEC * 040201000102030405060708
//@ VEC * 0300000000000000
//@ VEC * 0705000000090000
