//@ PROPERTY C18
//@ MODELDEF VERIF_STRLEN_ZERO
// C18: loading into a populated target equals loading into a fresh one.
//  h18a  Detail::SerializeContainer (generic_container.h - the algorithm behind vector/deque/list/... loading) instantiated with a
//        harness array scope (symbolic estimated size E in 0..4 that may DIFFER from the number of available items K in 0..4, as
//        for CSV / approximate sizes) and a bounded vector-like container with symbolic prior content of size P in 0..4:
//        the final content is exactly the K loaded items for every (P, E, K) - no stale element survives, nothing loaded is lost.
//  h18b  std::optional / std::unique_ptr loaders (types/std/optional.h, memory.h) with a harness archive whose value loader
//        returns a symbolic "loaded": prior state {empty, engaged(stale)} -> engaged with the loaded value, or empty; never stale.
#include "vh.h"
#include <optional>
#include <memory>
#include "bitserializer/bit_serializer.h"
#include "bitserializer/serialization_detail/generic_container.h"
#include "bitserializer/types/std/optional.h"
#include "bitserializer/types/std/memory.h"
using namespace BitSerializer;
// ---- bounded vector-like container (capacity 8, int elements; mimics the std::vector members SerializeContainer uses)
struct BVec {
	typedef int value_type; typedef int* iterator;
	int d[8]; size_t n = 0; bool overflow = false;
	iterator begin() { return d; } iterator end() { return d + n; }
	size_t size() const { return n; }
	void resize(size_t k) { if (k > 8) { overflow = true; k = 8; } for (size_t i = n; i < k; i++) d[i] = 0; n = k; }
	int& emplace_back() { if (n >= 8) { overflow = true; return d[7]; } d[n] = 0; return d[n++]; }
	void push_back(int v) { emplace_back() = v; } void clear() { n = 0; } bool empty() const { return n == 0; } void reserve(size_t) {}
	int& operator[](size_t i) { return d[i]; } int& back() { return d[n ? n - 1 : 0]; } void pop_back() { if (n) n--; }
};
// ---- harness array scope: K items with symbolic values, estimated size E
struct MockArr {
	static constexpr bool IsLoading() { return true; }
	static constexpr bool IsSaving() { return false; }
	size_t est, k, pos = 0; const int* items;
	size_t GetEstimatedSize() const { return est; }
	bool IsEnd() const { return pos == k; }
};
static bool Serialize(MockArr& a, int& v) { if (a.pos < a.k) { v = a.items[a.pos++]; return true; } return false; }
VH_EXPORT int vp_h18a_container(const unsigned char* in, unsigned char* out) {
	size_t P = in[0] % 5, E = in[1] % 5, K = in[2] % 5;
	int items[4]; for (int i = 0; i < 4; i++) items[i] = 100 + in[3 + i];
	BVec c; c.n = P; for (size_t i = 0; i < 8; i++) c.d[i] = (i < P) ? (int)(200 + in[7 + (i & 3)]) : -7;      // stale prior content
	MockArr arr{ E, K, 0, items };
	verif_symbolic_phase();
	Detail::SerializeContainer(arr, c);
	out[0] = (unsigned char)c.n; for (int i = 0; i < 4; i++) out[1 + i] = (unsigned char)c.d[i];
	if (c.overflow || c.n != K || !arr.IsEnd()) return 0;
	for (size_t i = 0; i < 4; i++) if (i < K && c.d[i] != items[i]) return 0;
	return 1;
}
// ---- optional / unique_ptr with a mock archive
struct MockVal {
	static constexpr bool IsLoading() { return true; }
	static constexpr bool IsSaving() { return false; }
	bool loaded; int value;
};
static bool Serialize(MockVal& a, int& v) { if (a.loaded) v = a.value; return a.loaded; }
template <class K> static bool Serialize(MockVal& a, K&&, int& v) { if (a.loaded) v = a.value; return a.loaded; }
VH_EXPORT int vp_h18b_optional(const unsigned char* in, unsigned char* out) {
	MockVal a{ (in[0] & 1) != 0, vh::rd<int32_t>(in + 1) };
	std::optional<int> o; if (in[0] & 2) o = vh::rd<int32_t>(in + 5);          // prior: empty or engaged with a stale value
	bool keyed = (in[0] & 4) != 0;
	bool r = keyed ? BitSerializer::Serialize(a, 7, o) : BitSerializer::Serialize(a, o);
	out[0] = r; out[1] = o.has_value();
	if (a.loaded) return r && o.has_value() && *o == a.value;
	return !r && !o.has_value();
}
VH_EXPORT int vp_h18b_unique(const unsigned char* in, unsigned char* out) {
	MockVal a{ (in[0] & 1) != 0, vh::rd<int32_t>(in + 1) };
	std::unique_ptr<int> p; if (in[0] & 2) p = std::make_unique<int>(vh::rd<int32_t>(in + 5));
	bool keyed = (in[0] & 4) != 0;
	bool r = keyed ? BitSerializer::Serialize(a, 7, p) : BitSerializer::Serialize(a, p);
	out[0] = r; out[1] = p != nullptr;
	if (a.loaded) return r && p && *p == a.value;
	return !r && !p;
}
VH_EXPORT int vp_h18b_shared(const unsigned char* in, unsigned char* out) {
	MockVal a{ (in[0] & 1) != 0, vh::rd<int32_t>(in + 1) };
	std::shared_ptr<int> p; if (in[0] & 2) p = std::make_shared<int>(vh::rd<int32_t>(in + 5));
	bool r = BitSerializer::Serialize(a, p);
	out[0] = r; out[1] = p != nullptr;
	if (a.loaded) return r && p && *p == a.value;
	return !r && !p;
}
// ---- h18c: map load modes (generic_map.h SerializeMapImpl) with a bounded map-like container and a harness object scope
#include "bitserializer/serialization_detail/generic_map.h"
struct BMap {             // capacity 6, int64 -> int, insertion order; the members SerializeMapImpl uses
	typedef int64_t key_type; typedef int mapped_type;
	struct Ent { int64_t first; int second; };
	typedef Ent* iterator;
	Ent e[6]; size_t n = 0; bool overflow = false;
	iterator begin() { return e; } iterator end() { return e + n; }
	void clear() { n = 0; }
	iterator find(int64_t k) { for (size_t i = 0; i < 6; i++) if (i < n && e[i].first == k) return e + i; return end(); }
	iterator try_emplace(iterator, int64_t k) { iterator it = find(k); if (it != end()) return it; if (n >= 6) { overflow = true; return e + 5; } e[n].first = k; e[n].second = 0; return e + n++; }
	int& operator[](int64_t k) { return try_emplace(end(), k)->second; }
	// (rest of the std::map surface a loader could reasonably touch)
	size_t size() const { return n; } bool empty() const { return n == 0; } size_t count(int64_t k) { return find(k) != end() ? 1 : 0; }
	iterator erase(iterator it) { for (iterator p = it; p + 1 < end(); ++p) *p = *(p + 1); if (n) n--; return it; }
	size_t erase(int64_t k) { iterator it = find(k); if (it == end()) return 0; erase(it); return 1; }
};
struct MockObj {
	using supported_key_types = TSupportedKeyTypes<std::string, int64_t>;
	using key_type = std::string;
	static constexpr bool IsLoading() { return true; }
	static constexpr bool IsSaving() { return false; }
	SerializationOptions opt;
	size_t k; const int64_t* keys; const int* vals; const bool* loaded;
	const SerializationOptions& GetOptions() const { return opt; }
	size_t GetEstimatedSize() const { return k; }
	template <class F> void VisitKeys(F&& fn) { for (size_t i = 0; i < 3; i++) if (i < k) { cur = i; fn(keys[i]); } }
	size_t cur = 0;
};
static bool Serialize(MockObj& o, const int64_t&, int& v) { if (o.loaded[o.cur]) v = o.vals[o.cur]; return o.loaded[o.cur]; }
template <int MODE> static inline int prop_map(const unsigned char* in, unsigned char* out) {
	// prior content: P entries with keys from a small universe 0..3 (distinct), document: K entries with distinct keys 0..3
	size_t P = in[0] % 3, K = in[1] % 3;
	BMap m; int64_t pk[2] = { in[2] % 4, in[3] % 4 }; if (P == 2 && pk[0] == pk[1]) return 1;
	for (size_t i = 0; i < 2; i++) if (i < P) { m.e[m.n].first = pk[i]; m.e[m.n].second = 500 + (int)i; m.n++; }
	int64_t dk[3] = { in[4] % 4, in[5] % 4, 0 }; if (K == 2 && dk[0] == dk[1]) return 1;
	int dv[3] = { 100 + in[6], 100 + in[7], 0 }; bool ld[3] = { (in[8] & 1) != 0, (in[8] & 2) != 0, false };
	MockObj o{ SerializationOptions(), K, dk, dv, ld };
	verif_symbolic_phase();
	Detail::SerializeMapImpl(o, m, MODE == 0 ? MapLoadMode::Clean : MODE == 1 ? MapLoadMode::OnlyExistKeys : MapLoadMode::UpdateKeys);
	out[0] = (unsigned char)m.n;
	if (m.overflow) return 0;
	// reference, key by key over the universe 0..3
	for (int64_t key = 0; key < 4; key++) {
		int prior_i = -1, doc_i = -1;
		for (size_t i = 0; i < 2; i++) { if (i < P && pk[i] == key) prior_i = (int)i; if (i < K && dk[i] == key) doc_i = (int)i; }
		BMap::iterator it = m.find(key); bool present = it != m.end();
		if (MODE == 0) {              // Clean == loading into a fresh map: exactly the document keys
			if (present != (doc_i >= 0)) return 0;
			if (present && ld[doc_i] && it->second != dv[doc_i]) return 0;
		} else if (MODE == 1) {       // OnlyExistKeys never adds a key (and keeps the others)
			if (present != (prior_i >= 0)) return 0;
			if (present) { int want = (doc_i >= 0 && ld[doc_i]) ? dv[doc_i] : 500 + prior_i; if (it->second != want) return 0; }
		} else {                      // UpdateKeys never removes a key
			if (present != (prior_i >= 0 || doc_i >= 0)) return 0;
			if (present && doc_i >= 0 && ld[doc_i] && it->second != dv[doc_i]) return 0;
			if (present && prior_i >= 0 && !(doc_i >= 0 && ld[doc_i]) && it->second != 500 + prior_i) return 0;
		}
	}
	return 1;
}
VH_EXPORT int vp_h18c_clean(const unsigned char* in, unsigned char* out) { return prop_map<0>(in, out); }
VH_EXPORT int vp_h18c_onlyexist(const unsigned char* in, unsigned char* out) { return prop_map<1>(in, out); }
VH_EXPORT int vp_h18c_update(const unsigned char* in, unsigned char* out) { return prop_map<2>(in, out); }
//@ OBL {"name":"h18c_clean","family":"h18c","prop":"vp_h18c_clean","in":12,"out":8,"unwind":8,"fs":32,"bounds":"prior map of 0..2 entries, document of 0..2 entries over keys 0..3, each value loadable or not","desc":"SerializeMapImpl, Clean: result has exactly the document keys (== fresh load), stale entries gone"}
//@ OBL {"name":"h18c_onlyexist","family":"h18c","prop":"vp_h18c_onlyexist","in":12,"out":8,"unwind":8,"fs":32,"bounds":"prior map of 0..2 entries, document of 0..2 entries over keys 0..3","desc":"SerializeMapImpl, OnlyExistKeys: never adds a key; existing keys updated when loadable, kept otherwise"}
//@ OBL {"name":"h18c_update","family":"h18c","prop":"vp_h18c_update","in":12,"out":8,"unwind":8,"fs":32,"bounds":"prior map of 0..2 entries, document of 0..2 entries over keys 0..3","desc":"SerializeMapImpl, UpdateKeys: never removes a key; document keys added/updated"}
//@ OBL {"name":"h18a_container","prop":"vp_h18a_container","in":12,"out":8,"unwind":10,"fs":32,"cap_s":900,"bounds":"prior size P, estimated size E and available items K each in 0..4 (all 125 combinations), symbolic item and stale values","desc":"SerializeContainer: final content == the K loaded items for every prior state and every (possibly wrong) size estimate"}
//@ OBL {"name":"h18b_optional","prop":"vp_h18b_optional","in":12,"out":8,"unwind":4,"fs":32,"bounds":"prior empty/engaged(stale), loaded flag, with and without key, every value","desc":"std::optional loader: engaged with the loaded value, or reset - never the stale value"}
//@ OBL {"name":"h18b_unique","prop":"vp_h18b_unique","in":12,"out":8,"unwind":4,"fs":32,"cbmc":["--memory-leak-check"],"bounds":"prior null/non-null(stale), loaded flag, with and without key","desc":"std::unique_ptr loader: points to the loaded value, or reset; no leak"}
//@ OBL {"name":"h18b_shared","prop":"vp_h18b_shared","in":12,"out":8,"unwind":4,"fs":32,"bounds":"prior null/non-null(stale), loaded flag","desc":"std::shared_ptr loader"}
//@ VEC * 040201000102030405060708
//@ VEC * 0300000000000000
//@ VEC * 0705000000090000
