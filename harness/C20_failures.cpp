//@ PROPERTY C20
//@ LINK msgpack/msgpack_readers.cpp msgpack/msgpack_writers.cpp common/binary_stream_reader.cpp
//@ MODELDEF VERIF_STRLEN_ZERO
//@ STUB _ZSt8to_charsPcS_d _ZSt8to_charsPcS_f
//@ OVERRIDE _ZN13BitSerializer7Convert6Detail2ToImcSaIcELi0EEEvRKT_RNSt7__cxx1112basic_stringIT0_St11char_traitsIS9_ET1_EE
// C20: every failure surfaces as a catchable exception - no terminate, no leak (MsgPack codec + scopes).
//  h20a  truncation at EVERY cut point: the real writer encodes a symbolic value, the encoding is cut at a symbolic length
//        0..len-1 (MessagePack is prefix-free: every strict prefix must be rejected) and given to the real reader:
//        the outcome is a ParsingException (caught as std::exception), never std::terminate; CBMC memory-leak check on.
//  h20b  object scope on a truncated map {"a":va,"b":vb}: complete document loads; for a cut inside the map the scope
//        destructor throws while skipping (-> std::terminate): recorded known finding F9, pinned to exactly that class.
//  h20c  library-detected error mid-save: BeginArray/BeginMap/BeginBinary/WriteValue(string) beyond 2^32-1 elements throws
//        SerializationException(OutOfRange) from both writers and leaves nothing half-written (covered in C06 h06c_*).
#include "mp_scopes.h"
using namespace mps;
template <class T> static inline int prop_cut(const unsigned char* in, unsigned char* out) {
	T v = vh::rd<T>(in); unsigned cut = in[8];
	std::string s; s.reserve(32); verif_nogrow(&s);
	SerializationOptions opt = options(in[9] & 3);
	CMsgPackStringWriter w(s);
	verif_symbolic_phase();
	int rc = outcome([&] { w.WriteValue(v); return true; });
	size_t len = s.size();
	size_t n = cut % (len ? len : 1);                     // strict prefix 0..len-1
	T back{}; std::memset(&back, 0x5a, sizeof(T));
	CMsgPackStringReader r(std::string_view(s.data(), n), opt);
	int rc2 = outcome([&] { return r.ReadValue(back); });
	out[0] = (unsigned char)rc; out[1] = (unsigned char)rc2; out[2] = (unsigned char)len; out[3] = (unsigned char)n;
	return rc == vh::OK && rc2 == RC_PARSING;
}
VH_EXPORT int vp_h20a_str(const unsigned char* in, unsigned char* out) {
	size_t sl = in[0] % 5; unsigned cut = in[8];
	std::string s; s.reserve(32); verif_nogrow(&s);
	SerializationOptions opt = options(in[9] & 3);
	CMsgPackStringWriter w(s);
	verif_symbolic_phase();
	int rc = outcome([&] { w.WriteValue(std::string_view(reinterpret_cast<const char*>(in + 1), sl)); return true; });
	size_t len = s.size(); size_t n = cut % (len ? len : 1);
	std::string_view back;
	CMsgPackStringReader r(std::string_view(s.data(), n), opt);
	int rc2 = outcome([&] { return r.ReadValue(back); });
	out[0] = (unsigned char)rc; out[1] = (unsigned char)rc2; out[2] = (unsigned char)len; out[3] = (unsigned char)n;
	return rc == vh::OK && rc2 == RC_PARSING;
}
// ---- h20b
VH_EXPORT int vk_h20b(const unsigned char* in) { return (in[2] % 9) < 8 && (in[2] % 9) >= 1 ? 1 : 0; }    // F9: cut inside the map body
VH_EXPORT int vp_h20b_objcut(const unsigned char* in, unsigned char* out) {
	unsigned char doc[8] = { 0x82, 0xa1, 'a', (unsigned char)(in[0] & 0x7f), 0xa1, 'b', (unsigned char)(in[1] & 0x7f), 0x2a };
	size_t n = in[2] % 9;                                  // 8 = complete document + sentinel... 7 = without sentinel
	SerializationOptions opt = options(0);
	CMsgPackStringReader r(std::string_view(reinterpret_cast<const char*>(doc), n), opt);
	SerializationContext ctx(opt);
	int a = -1, b = -1; bool ra = false, rb = false;
	verif_symbolic_phase();
	int rc = outcome([&] {
		size_t sz = 0; if (!r.ReadMapSize(sz)) return false;
		ObjScope scope(sz, &r, ctx);
		ra = scope.SerializeValue(std::string_view("a", 1), a);
		rb = scope.SerializeValue(std::string_view("b", 1), b);
		return true;
	});
	out[0] = (unsigned char)rc; out[1] = ra; out[2] = rb; out[3] = (unsigned char)a; out[4] = (unsigned char)b;
	if (n >= 7) return rc == vh::OK && ra && rb && a == (in[0] & 0x7f) && b == (in[1] & 0x7f);
	return rc == RC_PARSING;                                // any strict prefix of the map: a catchable parsing error
}
// ---- h20e: nested array scopes on a truncated document [[a, b], c]: the inner scope is left with an unread element (a target of
// fixed size 1), then destroyed, then the outer scope continues.  Every cut point: a catchable documented outcome, never
// std::terminate from a scope destructor, nothing leaked.
VH_EXPORT int vp_h20e_arrcut(const unsigned char* in, unsigned char* out) {
	unsigned char doc[5] = { 0x92, 0x92, (unsigned char)(in[0] & 0x7f), (unsigned char)(in[1] & 0x7f), (unsigned char)(in[2] & 0x7f) };
	size_t n = in[3] % 6;
	SerializationOptions opt = options(0);
	CMsgPackStringReader r(std::string_view(reinterpret_cast<const char*>(doc), n), opt);
	SerializationContext ctx(opt);
	int a = -1, c = -1; bool ra = false, rc_ = false;
	verif_symbolic_phase();
	int rc = outcome([&] {
		size_t sz = 0; if (!r.ReadArraySize(sz)) return false;
		ArrScope outer(sz, &r, ctx);
		{
			auto inner = outer.OpenArrayScope(0);
			if (!inner) return false;
			ra = inner->SerializeValue(a);
		}
		rc_ = outer.SerializeValue(c);
		return true;
	});
	out[0] = (unsigned char)rc; out[1] = ra; out[2] = rc_; out[3] = (unsigned char)a; out[4] = (unsigned char)c;
	if (n < 3) return rc == RC_PARSING;
	if (a != (in[0] & 0x7f)) return 0;
	return rc == vh::OK || rc == RC_PARSING;
}
#define D(name, T) VH_EXPORT int vp_h20a_##name(const unsigned char* in, unsigned char* out) { return prop_cut<T>(in, out); }
D(u16, uint16_t) D(u64, uint64_t) D(i32, int32_t) D(i64, int64_t) D(f32, float) D(f64, double)
//@ OBL {"name": "h20e_arrcut", "prop": "vp_h20e_arrcut", "in": 8, "out": 8, "unwind": 8, "fs": 32, "cbmc": ["--memory-leak-check"], "unwind_fn": {"SkipValueImpl": 1}, "recursion": {"SkipValueImpl": 0}, "cap_s": 900, "bounds": "document [[a,b],c] with symbolic one-byte elements, every cut point 0..5", "desc": "nested array scope destroyed with an unread element on a truncated document: ParsingException or success, no terminate from the scope destructor, no leak"}
//@ OBL {"name": "h20a_u16", "family": "h20a", "prop": "vp_h20a_u16", "in": 16, "out": 8, "unwind": 12, "fs": 32, "cbmc": ["--memory-leak-check"], "unwind_fn": {"SkipValueImpl": 1}, "recursion": {"SkipValueImpl": 0}, "bounds": "every uint16 value, every strict prefix of its encoding, both policies", "desc": "truncated encoding -> ParsingException; no terminate, no leak"}
//@ OBL {"name": "h20a_u64", "family": "h20a", "prop": "vp_h20a_u64", "in": 16, "out": 8, "unwind": 12, "fs": 32, "cbmc": ["--memory-leak-check"], "unwind_fn": {"SkipValueImpl": 1}, "recursion": {"SkipValueImpl": 0}, "bounds": "every uint64 value, every strict prefix", "desc": "truncated encoding -> ParsingException"}
//@ OBL {"name": "h20a_i32", "family": "h20a", "prop": "vp_h20a_i32", "in": 16, "out": 8, "unwind": 12, "fs": 32, "cbmc": ["--memory-leak-check"], "unwind_fn": {"SkipValueImpl": 1}, "recursion": {"SkipValueImpl": 0}, "bounds": "every int32 value, every strict prefix", "desc": "truncated encoding -> ParsingException"}
//@ OBL {"name": "h20a_i64", "family": "h20a", "prop": "vp_h20a_i64", "in": 16, "out": 8, "unwind": 12, "fs": 32, "cbmc": ["--memory-leak-check"], "unwind_fn": {"SkipValueImpl": 1}, "recursion": {"SkipValueImpl": 0}, "bounds": "every int64 value, every strict prefix", "desc": "truncated encoding -> ParsingException"}
//@ OBL {"name": "h20a_f32", "family": "h20a", "prop": "vp_h20a_f32", "in": 16, "out": 8, "unwind": 12, "fs": 32, "cbmc": ["--memory-leak-check"], "unwind_fn": {"SkipValueImpl": 1}, "recursion": {"SkipValueImpl": 0}, "bounds": "every float bit pattern, every strict prefix", "desc": "truncated encoding -> ParsingException"}
//@ OBL {"name": "h20a_f64", "family": "h20a", "prop": "vp_h20a_f64", "in": 16, "out": 8, "unwind": 12, "fs": 32, "cbmc": ["--memory-leak-check"], "unwind_fn": {"SkipValueImpl": 1}, "recursion": {"SkipValueImpl": 0}, "bounds": "every double bit pattern, every strict prefix", "desc": "truncated encoding -> ParsingException"}
//@ OBL {"name": "h20a_str", "family": "h20a", "prop": "vp_h20a_str", "in": 16, "out": 8, "unwind": 12, "fs": 32, "cbmc": ["--memory-leak-check"], "unwind_fn": {"SkipValueImpl": 1}, "recursion": {"SkipValueImpl": 0}, "bounds": "every string of length <= 4, every strict prefix of its encoding", "desc": "truncated string encoding -> ParsingException"}
//@ OBL {"name": "h20b_objfull", "family": "h20b", "prop": "vp_h20b_objcut", "known": "vk_h20b", "in": 8, "out": 8, "unwind": 6, "fs": 32, "cbmc": ["--memory-leak-check"], "unwind_fn": {"SkipValueImpl": 1}, "recursion": {"SkipValueImpl": 0}, "cap_s": 3600, "bounds": "complete document {a:va,b:vb} with and without trailing data (quick; every cut point: thorough)", "desc": "object scope on the complete document: loads, destructor skips nothing, no terminate / leak", "cassume": ["in[2] % 9 >= 7"], "tier": "open"}
//@ OBL {"name": "h20b_objcut", "family": "h20b", "prop": "vp_h20b_objcut", "known": "vk_h20b", "in": 8, "out": 8, "unwind": 6, "fs": 32, "cbmc": ["--memory-leak-check"], "unwind_fn": {"SkipValueImpl": 1}, "recursion": {"SkipValueImpl": 0}, "cap_s": 3600, "bounds": "document {a:va,b:vb} cut at every length 0..8", "desc": "object scope on a truncated document: catchable parsing error (F9 class: destructor throws -> terminate, recorded)", "tier": "open"}
//@ VEC * 00000000000000000000
//@ VEC * ffffffffffffffff0300
//@ VEC * 0506040000000000
//@ VEC * 0506080000000000
//@ VEC h20e_arrcut 0102030500000000
//@ VEC h20e_arrcut 0102030300000000
//@ VEC h20e_arrcut 0102030200000000
