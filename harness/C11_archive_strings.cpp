//@ PROPERTY C11
// H11c: "string values and keys of any width inside archives": Detail::TranscodeStringByPolicy (serialization_base_types.h) is the
// one place where a string of the user's width becomes the archive's width (and back), through the per-session buffer of the REAL
// SerializationContext.  k <= 2 arbitrary Unicode scalars (U+0000 included):
//   the view handed to the archive == reference encoding of the scalars, complete (length!), under both policies.
// in[0] = k, in[1] = policy, in[4..8) = c0, in[8..12) = c1.
#include "vh.h"
#include "ref/utf.h"
#include <string>
#include "bitserializer/bit_serializer.h"
using namespace BitSerializer;
struct In { size_t k; uint32_t c[2]; bool thr; };
static inline In load(const unsigned char* in) { In r; r.k = in[0] <= 2 ? in[0] : 2; r.thr = in[1] & 1; r.c[0] = vh::rd<uint32_t>(in + 4); r.c[1] = vh::rd<uint32_t>(in + 8); return r; }
VH_EXPORT int va_scalars(const unsigned char* in) { In v = load(in); return in[0] <= 2 && ref::is_scalar(v.c[0]) && ref::is_scalar(v.c[1]); }
static inline size_t enc(uint32_t c, unsigned char* o) { return ref::enc_utf8(c, o); }
static inline size_t enc(uint32_t c, uint16_t* o) { return ref::enc_utf16(c, o); }
static inline size_t enc(uint32_t c, uint32_t* o) { o[0] = c; return 1; }
template <class U> struct CharOf; template <> struct CharOf<unsigned char> { typedef char type; }; template <> struct CharOf<uint16_t> { typedef char16_t type; }; template <> struct CharOf<uint32_t> { typedef char32_t type; };
template <class US, class UT> static inline int prop(const unsigned char* in, unsigned char* out) {
	typedef typename CharOf<US>::type CS; typedef typename CharOf<UT>::type CT;
	In v = load(in);
	US src[8]; size_t ns = 0; for (size_t i = 0; i < 2; i++) if (i < v.k) ns += enc(v.c[i], src + ns);
	UT want[8]; size_t nw = 0; for (size_t i = 0; i < 2; i++) if (i < v.k) nw += enc(v.c[i], want + nw);
	CS text[8]; for (size_t i = 0; i < 8; i++) text[i] = i < ns ? (CS)src[i] : (CS)'x';
	SerializationOptions opt; opt.utfEncodingErrorPolicy = v.thr ? Convert::Utf::UtfEncodingErrorPolicy::ThrowError : Convert::Utf::UtfEncodingErrorPolicy::Skip;
	SerializationContext ctx(opt);
	auto& buf = ctx.GetStringValueBuffer<std::basic_string<CT>>(); buf.reserve(24); verif_nogrow(&buf);
	verif_symbolic_phase();
	std::basic_string_view<CS> source(text, ns);
	std::basic_string_view<CT> target;
	int rc = vh::outcome([&] { BitSerializer::Detail::TranscodeStringByPolicy(source, target, ctx); });
	out[0] = (unsigned char)rc; out[1] = (unsigned char)target.size();
	if (rc != vh::OK || target.size() != nw) return 0;
	for (size_t i = 0; i < 8; i++) if (i < nw && (UT)target[i] != want[i]) return 0;
	return 1;
}
VH_EXPORT int vp_h11c_16_8(const unsigned char* in, unsigned char* out) { return prop<uint16_t, unsigned char>(in, out); }
VH_EXPORT int vp_h11c_8_16(const unsigned char* in, unsigned char* out) { return prop<unsigned char, uint16_t>(in, out); }
VH_EXPORT int vp_h11c_32_8(const unsigned char* in, unsigned char* out) { return prop<uint32_t, unsigned char>(in, out); }
VH_EXPORT int vp_h11c_8_32(const unsigned char* in, unsigned char* out) { return prop<unsigned char, uint32_t>(in, out); }
//@ OBL {"name": "h11c_16_8", "prop": "vp_h11c_16_8", "assume": "va_scalars", "in": 12, "out": 8, "unwind": 10, "fs": 32, "cap_s": 900, "backends": ["default", "kissat"], "bounds": "k <= 2 arbitrary Unicode scalars (U+0000 included), both policies", "desc": "TranscodeStringByPolicy UTF-16 -> UTF-8 through the real SerializationContext buffer: complete reference encoding"}
//@ OBL {"name": "h11c_8_16", "prop": "vp_h11c_8_16", "assume": "va_scalars", "in": 12, "out": 8, "unwind": 10, "fs": 32, "cap_s": 900, "backends": ["default", "kissat"], "bounds": "k <= 2 arbitrary Unicode scalars, both policies", "desc": "TranscodeStringByPolicy UTF-8 -> UTF-16"}
//@ OBL {"name": "h11c_32_8", "prop": "vp_h11c_32_8", "assume": "va_scalars", "in": 12, "out": 8, "unwind": 10, "fs": 32, "cap_s": 900, "backends": ["default", "kissat"], "bounds": "k <= 2 arbitrary Unicode scalars, both policies", "desc": "TranscodeStringByPolicy UTF-32 -> UTF-8"}
//@ OBL {"name": "h11c_8_32", "prop": "vp_h11c_8_32", "assume": "va_scalars", "in": 12, "out": 8, "unwind": 10, "fs": 32, "cap_s": 900, "backends": ["default", "kissat"], "bounds": "k <= 2 arbitrary Unicode scalars, both policies", "desc": "TranscodeStringByPolicy UTF-8 -> UTF-32"}
//@ VEC * 020100004100000000000000
//@ VEC * 02000000e9000000ffff0000
//@ VEC * 02010000000000004af60100
//@ VEC * 010100003dd8000000000000
