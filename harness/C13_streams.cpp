//@ PROPERTY C13
// C13: encoded text streams (convert_utf.h): detection, BOM, chunked decoding.
//  h13a  DetectEncoding(string_view, size_t&): text of 1..3 Unicode scalars rendered by the harness in encoding E (5 encodings), with
//        or without BOM.  With BOM: any text.  Without BOM: the first scalar is ASCII other than NUL and no scalar is U+0000 (texts
//        with NULs are inherently ambiguous between UTF-16 and UTF-32 and are not alarmed on).  detected == E, offset == BOM size.
//  h13b  CEncodedStreamReader<char16_t, 32> (the smallest chunk the class allows) over a memory stream: BOM? + k ASCII filler
//        characters (k symbolic, so that the next character starts at every offset 26..34 around the 32-byte chunk boundary) +
//        2 symbolic scalars, in UTF-8 / UTF-16LE / UTF-16BE: the decoded text equals the reference transcoding, the detected
//        encoding is E, and the read loop ends with EndFile within the unwinding bound (no hang).
#include "vh.h"
#include "vh_stream.h"
#include "ref/utf.h"
#include <string>
#include "bitserializer/convert.h"
using namespace BitSerializer::Convert::Utf;
static inline size_t put_unit(unsigned char* o, uint32_t u, int enc) {       // one code unit in encoding enc (1..4: 16le,16be,32le,32be)
	if (enc == 1) { o[0] = (unsigned char)u; o[1] = (unsigned char)(u >> 8); return 2; }
	if (enc == 2) { o[1] = (unsigned char)u; o[0] = (unsigned char)(u >> 8); return 2; }
	if (enc == 3) { o[0] = (unsigned char)u; o[1] = (unsigned char)(u >> 8); o[2] = (unsigned char)(u >> 16); o[3] = (unsigned char)(u >> 24); return 4; }
	o[3] = (unsigned char)u; o[2] = (unsigned char)(u >> 8); o[1] = (unsigned char)(u >> 16); o[0] = (unsigned char)(u >> 24); return 4;
}
static inline size_t put_scalar(unsigned char* o, uint32_t c, int enc) {
	if (enc == 0) return ref::enc_utf8(c, o);
	if (enc <= 2) { uint16_t u[2]; size_t k = ref::enc_utf16(c, u); size_t n = 0; for (size_t i = 0; i < k; i++) n += put_unit(o + n, u[i], enc); return n; }
	return put_unit(o, c, enc);
}
static inline size_t put_bom(unsigned char* o, int enc) {
	static const unsigned char b0[3] = { 0xEF, 0xBB, 0xBF };
	if (enc == 0) { o[0] = b0[0]; o[1] = b0[1]; o[2] = b0[2]; return 3; }
	return put_scalar(o, 0xFEFF, enc);
}
static const UtfType ENC[5] = { UtfType::Utf8, UtfType::Utf16le, UtfType::Utf16be, UtfType::Utf32le, UtfType::Utf32be };
struct In13 { int enc; bool bom; size_t k; uint32_t c[3]; };
static inline In13 load13(const unsigned char* in) { In13 v; v.enc = in[0] % 5; v.bom = (in[1] & 1) != 0; v.k = 1 + in[2] % 3; for (int i = 0; i < 3; i++) v.c[i] = vh::rd<uint32_t>(in + 3 + 4 * i) & 0x1FFFFF; return v; }
VH_EXPORT int va_h13a(const unsigned char* in) {
	In13 v = load13(in);
	for (size_t i = 0; i < 3; i++) if (i < v.k && !ref::is_scalar(v.c[i])) return 0;
	if (v.bom) return !(v.enc == 1 && v.c[0] == 0);     // FF FE 00 00 is the UTF-32LE BOM: UTF-16LE BOM + U+0000 is inherently ambiguous
	if (!(v.c[0] >= 1 && v.c[0] <= 0x7f)) return 0;
	for (size_t i = 0; i < 3; i++) if (i < v.k && v.c[i] == 0) return 0;
	return 1;
}
VH_EXPORT int vp_h13a_detect(const unsigned char* in, unsigned char* out) {
	In13 v = load13(in);
	unsigned char buf[20]; size_t n = 0;
	for (size_t i = 0; i < 20; i++) buf[i] = 0;
	size_t bomsz = v.bom ? put_bom(buf, v.enc) : 0; n = bomsz;
	for (size_t i = 0; i < 3; i++) if (i < v.k) n += put_scalar(buf + n, v.c[i], v.enc);
	size_t off = 99;
	UtfType t = DetectEncoding(std::string_view(reinterpret_cast<const char*>(buf), n), off);
	out[0] = (unsigned char)t; out[1] = (unsigned char)off; out[2] = (unsigned char)n;
	return t == ENC[v.enc] && off == bomsz;
}
// ---- h13b
VH_EXPORT int va_h13b(const unsigned char* in) {
	uint32_t c0 = vh::rd<uint32_t>(in + 3) & 0x1FFFFF, c1 = vh::rd<uint32_t>(in + 7) & 0x1FFFFF;
	return ref::is_scalar(c0) && ref::is_scalar(c1) && c0 != 0 && c1 != 0;
}
template <int E> static inline int prop_reader(const unsigned char* in, unsigned char* out) {
	bool bom = (in[1] & 1) != 0; size_t k = 13 + in[2] % 9;            // number of filler characters
	uint32_t c[2] = { vh::rd<uint32_t>(in + 3) & 0x1FFFFF, vh::rd<uint32_t>(in + 7) & 0x1FFFFF };
	static unsigned char buf[96]; size_t n = 0;
	if (bom) n += put_bom(buf, E);
	if (E != 0) k = (k + 1) / 2 + 6;                                  // 2-byte units: same byte offsets around 32
	for (size_t i = 0; i < 24; i++) if (i < k) n += put_scalar(buf + n, 'a' + (uint32_t)(i % 26), E);
	n += put_scalar(buf + n, c[0], E); n += put_scalar(buf + n, c[1], E);
	vh::MemIStream is(reinterpret_cast<const char*>(buf), n);
	std::u16string s; s.reserve(64); verif_nogrow(&s);
	CEncodedStreamReader<char16_t, 32> rd(is, UtfEncodingErrorPolicy::ThrowError);
	verif_symbolic_phase();
	int rounds = 0; bool ended = false; bool err = false;
	for (; rounds < 5; rounds++) {
		auto r = rd.ReadChunk(s);
		if (r == EncodedStreamReadResult::EndFile) { ended = true; break; }
		if (r == EncodedStreamReadResult::DecodeError) { err = true; break; }
	}
	out[0] = (unsigned char)rounds; out[1] = ended; out[2] = err; out[3] = (unsigned char)s.size(); out[4] = (unsigned char)rd.GetSourceUtfType();
	if (!ended || err || rd.GetSourceUtfType() != ENC[E]) return 0;
	uint16_t e[40]; size_t ne = 0;
	for (size_t i = 0; i < 24; i++) if (i < k) e[ne++] = (uint16_t)('a' + i % 26);
	ne += ref::enc_utf16(c[0], e + ne); ne += ref::enc_utf16(c[1], e + ne);
	if (s.size() != ne) return 0;
	for (size_t i = 0; i < 40; i++) if (i < ne && (uint16_t)s[i] != e[i]) return 0;
	return 1;
}
// ---- h13c: a SHORT stream (one read) cut inside its last character: "a stream cut in the middle of a character is handled per the
// error policy (mark or error) rather than by hanging or silent loss".  Stream = BOM? + 'a' + one scalar c (at least 2 bytes in
// encoding E), cut after `cut` bytes of c's encoding (0 = c missing completely: a complete text; len = complete).
//   complete text          -> "a" (+ c), loop ends with EndFile, no error
//   cut inside c, ThrowError -> DecodeError is reported (and the loop does not spin)
//   cut inside c, Skip       -> "a" + the error mark (default mark), EndFile
// An odd number of bytes in a UTF-16 stream (cut inside a code unit) is excluded here: see the note in DESIGN 0.4.
template <int E, int BOM> static inline int prop_cut(const unsigned char* in, unsigned char* out) {
	const bool bom = BOM != 0; bool thr = (in[1] & 2) != 0;
	uint32_t c = vh::rd<uint32_t>(in + 3) & 0x1FFFFF;
	static unsigned char buf[16]; size_t n = 0;
	for (size_t i = 0; i < 16; i++) buf[i] = 0;
	if (bom) n += put_bom(buf, E);
	n += put_scalar(buf + n, 'a', E);
	unsigned char enc[4]; size_t len = put_scalar(enc, c, E);
	size_t cut = in[2] % 5; if (cut > len) cut = len;
	for (size_t i = 0; i < 4; i++) if (i < cut) buf[n + i] = enc[i];
	n += cut;
	vh::MemIStream is(reinterpret_cast<const char*>(buf), n);
	std::u16string s; s.reserve(24); verif_nogrow(&s);
	CEncodedStreamReader<char16_t, 32> rd(is, thr ? UtfEncodingErrorPolicy::ThrowError : UtfEncodingErrorPolicy::Skip);
	verif_symbolic_phase();
	int rounds = 0; bool ended = false; bool err = false;
	for (; rounds < 3; rounds++) {
		auto r = rd.ReadChunk(s);
		if (r == EncodedStreamReadResult::EndFile) { ended = true; break; }
		if (r == EncodedStreamReadResult::DecodeError) { err = true; break; }
	}
	out[0] = (unsigned char)rounds; out[1] = ended; out[2] = err; out[3] = (unsigned char)s.size(); out[4] = (unsigned char)rd.GetSourceUtfType();
	uint16_t e[4]; size_t ne = 0; e[ne++] = 'a';
	if (cut == len) ne += ref::enc_utf16(c, e + ne);
	const bool partial = cut != 0 && cut != len;
	if (partial && thr) return err && !ended && s.size() >= 1 && s[0] == u'a';
	if (!ended || err) return 0;
	if (partial) { if (s.size() < 2) return 0; return s[0] == u'a'; }              // "a" + a non-empty mark
	if (s.size() != ne) return 0;
	for (size_t i = 0; i < 4; i++) if (i < ne && (uint16_t)s[i] != e[i]) return 0;
	return 1;
}
VH_EXPORT int va_h13c_8(const unsigned char* in) { uint32_t c = vh::rd<uint32_t>(in + 3) & 0x1FFFFF; return ref::is_scalar(c) && c >= 0x80; }
VH_EXPORT int va_h13c_16(const unsigned char* in) {            // whole code units only (even cut), c outside the BMP so that a cut after one unit is inside the character
	uint32_t c = vh::rd<uint32_t>(in + 3) & 0x1FFFFF; return ref::is_scalar(c) && c >= 0x10000 && (in[2] % 5) % 2 == 0; }
VH_EXPORT int vp_h13c_cut8(const unsigned char* in, unsigned char* out) { return prop_cut<0, 1>(in, out); }
VH_EXPORT int vp_h13c_cut8n(const unsigned char* in, unsigned char* out) { return prop_cut<0, 0>(in, out); }
VH_EXPORT int vp_h13c_cut16le(const unsigned char* in, unsigned char* out) { return prop_cut<1, 1>(in, out); }
VH_EXPORT int vp_h13c_cut16be(const unsigned char* in, unsigned char* out) { return prop_cut<2, 1>(in, out); }
// ---- h13d: "The writer emits exactly the configured encoding and BOM": CEncodedStreamWriter(stream, E, addBom) fed with a UTF-16
// text of k <= 2 arbitrary Unicode scalars: the bytes in the stream == BOM(E)? ++ reference encoding of the scalars in E.
template <int E> static inline int prop_writer(const unsigned char* in, unsigned char* out) {
	bool bom = (in[1] & 1) != 0; size_t k = in[2] % 3;
	uint32_t c[2] = { vh::rd<uint32_t>(in + 3) & 0x1FFFFF, vh::rd<uint32_t>(in + 7) & 0x1FFFFF };
	uint16_t u[4]; size_t nu = 0; for (size_t i = 0; i < 2; i++) if (i < k) nu += ref::enc_utf16(c[i], u + nu);
	char16_t text[4]; for (size_t i = 0; i < 4; i++) text[i] = i < nu ? (char16_t)u[i] : u'x';
	static char sbuf[24]; for (size_t i = 0; i < 24; i++) sbuf[i] = 0;
	vh::MemOStream os(sbuf, 24);
	verif_symbolic_phase();
	UtfEncodingErrorCode ec = UtfEncodingErrorCode::Success;
	int rc = vh::outcome([&] { CEncodedStreamWriter w(os, ENC[E], bom, UtfEncodingErrorPolicy::ThrowError); ec = w.Write(std::u16string_view(text, nu)); });
	unsigned char want[24]; size_t nw = 0;
	if (bom) nw += put_bom(want, E);
	for (size_t i = 0; i < 2; i++) if (i < k) nw += put_scalar(want + nw, c[i], E);
	out[0] = (unsigned char)rc; out[1] = (unsigned char)ec; out[2] = (unsigned char)os.written(); out[3] = (unsigned char)nw;
	if (rc != vh::OK || ec != UtfEncodingErrorCode::Success || os.written() != nw || !os.good()) return 0;
	for (size_t i = 0; i < 24; i++) if (i < nw && (unsigned char)sbuf[i] != want[i]) return 0;
	return 1;
}
VH_EXPORT int va_h13d(const unsigned char* in) { return ref::is_scalar(vh::rd<uint32_t>(in + 3) & 0x1FFFFF) && ref::is_scalar(vh::rd<uint32_t>(in + 7) & 0x1FFFFF); }
VH_EXPORT int vp_h13d_w8(const unsigned char* in, unsigned char* out) { return prop_writer<0>(in, out); }
VH_EXPORT int vp_h13d_w16le(const unsigned char* in, unsigned char* out) { return prop_writer<1>(in, out); }
VH_EXPORT int vp_h13d_w16be(const unsigned char* in, unsigned char* out) { return prop_writer<2>(in, out); }
VH_EXPORT int vp_h13d_w32le(const unsigned char* in, unsigned char* out) { return prop_writer<3>(in, out); }
VH_EXPORT int vp_h13d_w32be(const unsigned char* in, unsigned char* out) { return prop_writer<4>(in, out); }
// ---- h13d, two calls: a Write() that fails (ThrowError, lone high surrogate after 'a') emits nothing and leaves nothing behind:
// the following Write() of a valid scalar produces exactly BOM? ++ encoding of that scalar.  (Targets of another width than the
// source only: a same-width target copies the code units without validating them, by design.)
template <int E> static inline int prop_writer2(const unsigned char* in, unsigned char* out) {
	bool bom = (in[1] & 1) != 0;
	uint32_t c = vh::rd<uint32_t>(in + 3) & 0x1FFFFF;
	char16_t bad[2] = { u'a', (char16_t)(0xD800 + (vh::rd<uint16_t>(in + 7) & 0x3FF)) };
	uint16_t u[2]; size_t nu = ref::enc_utf16(c, u);
	char16_t good[2] = { (char16_t)u[0], (char16_t)(nu > 1 ? u[1] : 0) };
	static char sbuf[24]; for (size_t i = 0; i < 24; i++) sbuf[i] = 0;
	vh::MemOStream os(sbuf, 24);
	verif_symbolic_phase();
	UtfEncodingErrorCode e1 = UtfEncodingErrorCode::Success, e2 = UtfEncodingErrorCode::Success;
	int rc = vh::outcome([&] {
		CEncodedStreamWriter w(os, ENC[E], bom, UtfEncodingErrorPolicy::ThrowError);
		e1 = w.Write(std::u16string_view(bad, 2));
		e2 = w.Write(std::u16string_view(good, nu));
	});
	unsigned char want[24]; size_t nw = 0;
	if (bom) nw += put_bom(want, E);
	nw += put_scalar(want + nw, c, E);
	out[0] = (unsigned char)rc; out[1] = (unsigned char)e1; out[2] = (unsigned char)e2; out[3] = (unsigned char)os.written(); out[4] = (unsigned char)nw;
	if (rc != vh::OK || e1 == UtfEncodingErrorCode::Success || e2 != UtfEncodingErrorCode::Success || os.written() != nw) return 0;
	for (size_t i = 0; i < 24; i++) if (i < nw && (unsigned char)sbuf[i] != want[i]) return 0;
	return 1;
}
VH_EXPORT int va_h13d2(const unsigned char* in) { return ref::is_scalar(vh::rd<uint32_t>(in + 3) & 0x1FFFFF); }
VH_EXPORT int vp_h13d_w2_8(const unsigned char* in, unsigned char* out) { return prop_writer2<0>(in, out); }
VH_EXPORT int vp_h13d_w2_32be(const unsigned char* in, unsigned char* out) { return prop_writer2<4>(in, out); }
VH_EXPORT int vp_h13b_utf8(const unsigned char* in, unsigned char* out) { return prop_reader<0>(in, out); }
VH_EXPORT int vp_h13b_utf16le(const unsigned char* in, unsigned char* out) { return prop_reader<1>(in, out); }
VH_EXPORT int vp_h13b_utf16be(const unsigned char* in, unsigned char* out) { return prop_reader<2>(in, out); }
//@ OBL {"name": "h13a_detect", "prop": "vp_h13a_detect", "assume": "va_h13a", "in": 16, "out": 8, "unwind": 24, "fs": 32, "cap_s": 900, "bounds": "5 encodings x BOM on/off x texts of 1..3 arbitrary Unicode scalars (no-BOM texts start with a non-NUL ASCII character and contain no U+0000)", "desc": "DetectEncoding(string_view): detected encoding and data offset"}
//@ OBL {"name": "h13d_w8", "prop": "vp_h13d_w8", "assume": "va_h13d", "in": 12, "out": 8, "unwind": 8, "unwind_models": 26, "unwind_fn": {"^verif_stream_copy$": 26, "vp_h13d|prop_writer": 26}, "fs": 32, "cap_s": 900, "backends": ["default", "kissat"], "bounds": "BOM on/off x UTF-16 text of k <= 2 arbitrary Unicode scalars, target UTF-8", "desc": "CEncodedStreamWriter: stream bytes == BOM? ++ reference UTF-8 encoding"}
//@ OBL {"name": "h13d_w16le", "prop": "vp_h13d_w16le", "assume": "va_h13d", "in": 12, "out": 8, "unwind": 8, "unwind_models": 26, "unwind_fn": {"^verif_stream_copy$": 26, "vp_h13d|prop_writer": 26}, "fs": 32, "cap_s": 900, "backends": ["default", "kissat"], "bounds": "BOM on/off x UTF-16 text of k <= 2 arbitrary Unicode scalars, target UTF-16LE", "desc": "CEncodedStreamWriter: stream bytes == BOM? ++ reference UTF-16LE encoding"}
//@ OBL {"name": "h13d_w16be", "prop": "vp_h13d_w16be", "assume": "va_h13d", "in": 12, "out": 8, "unwind": 8, "unwind_models": 26, "unwind_fn": {"^verif_stream_copy$": 26, "vp_h13d|prop_writer": 26}, "fs": 32, "cap_s": 900, "backends": ["default", "kissat"], "bounds": "BOM on/off x UTF-16 text of k <= 2 arbitrary Unicode scalars, target UTF-16BE", "desc": "CEncodedStreamWriter: stream bytes == BOM? ++ reference UTF-16BE encoding"}
//@ OBL {"name": "h13d_w32le", "prop": "vp_h13d_w32le", "assume": "va_h13d", "in": 12, "out": 8, "unwind": 8, "unwind_models": 26, "unwind_fn": {"^verif_stream_copy$": 26, "vp_h13d|prop_writer": 26}, "fs": 32, "cap_s": 900, "backends": ["default", "kissat"], "bounds": "BOM on/off x UTF-16 text of k <= 2 arbitrary Unicode scalars, target UTF-32LE", "desc": "CEncodedStreamWriter: stream bytes == BOM? ++ reference UTF-32LE encoding"}
//@ OBL {"name": "h13d_w32be", "prop": "vp_h13d_w32be", "assume": "va_h13d", "in": 12, "out": 8, "unwind": 8, "unwind_models": 26, "unwind_fn": {"^verif_stream_copy$": 26, "vp_h13d|prop_writer": 26}, "fs": 32, "cap_s": 900, "backends": ["default", "kissat"], "bounds": "BOM on/off x UTF-16 text of k <= 2 arbitrary Unicode scalars, target UTF-32BE", "desc": "CEncodedStreamWriter: stream bytes == BOM? ++ reference UTF-32BE encoding"}
//@ OBL {"name": "h13d_w2_8", "prop": "vp_h13d_w2_8", "assume": "va_h13d2", "in": 12, "out": 8, "unwind": 8, "unwind_models": 26, "unwind_fn": {"^verif_stream_copy$": 26, "vp_h13d|prop_writer": 26}, "fs": 32, "cap_s": 900, "backends": ["default", "kissat"], "bounds": "BOM on/off; first text = a + any lone high surrogate (rejected under ThrowError), second text = any Unicode scalar, target UTF-8", "desc": "CEncodedStreamWriter: a failing Write emits nothing and does not leak into the next Write"}
//@ OBL {"name": "h13d_w2_32be", "prop": "vp_h13d_w2_32be", "assume": "va_h13d2", "in": 12, "out": 8, "unwind": 8, "unwind_models": 26, "unwind_fn": {"^verif_stream_copy$": 26, "vp_h13d|prop_writer": 26}, "fs": 32, "cap_s": 3600, "tier": "open", "backends": ["default", "kissat"], "bounds": "BOM on/off; first text = a + any lone high surrogate (rejected under ThrowError), second text = any Unicode scalar, target UTF-32BE", "desc": "CEncodedStreamWriter: a failing Write emits nothing and does not leak into the next Write"}
//@ OBL {"name": "h13c_cut8", "prop": "vp_h13c_cut8", "assume": "va_h13c_8", "in": 12, "out": 8, "unwind": 8, "unwind_models": 20, "unwind_fn": {"^verif_stream_copy$": 20, "vp_h13c|prop_cut": 18}, "fs": 32, "cap_s": 3600, "mem_gb": 40, "tier": "open", "backends": ["default", "kissat"], "bounds": "UTF-8 stream BOM + 'a' + one multi-byte scalar cut at every byte 0..len, both policies, target char16_t, chunk 32", "desc": "CEncodedStreamReader on a stream that ends inside a character: DecodeError (ThrowError) or mark (Skip), the read loop ends"}
//@ OBL {"name": "h13c_cut8n", "prop": "vp_h13c_cut8n", "assume": "va_h13c_8", "in": 12, "out": 8, "unwind": 8, "unwind_models": 20, "unwind_fn": {"^verif_stream_copy$": 20, "vp_h13c|prop_cut": 18}, "fs": 32, "cap_s": 3600, "mem_gb": 40, "tier": "open", "backends": ["default", "kissat"], "bounds": "UTF-8 stream without BOM: 'a' + one multi-byte scalar cut at every byte 0..len, both policies, target char16_t, chunk 32", "desc": "CEncodedStreamReader on a stream that ends inside a character: DecodeError (ThrowError) or mark (Skip), the read loop ends"}
//@ OBL {"name": "h13c_cut16le", "prop": "vp_h13c_cut16le", "assume": "va_h13c_16", "in": 12, "out": 8, "unwind": 8, "unwind_models": 20, "unwind_fn": {"^verif_stream_copy$": 20, "vp_h13c|prop_cut": 18}, "fs": 32, "cap_s": 3600, "mem_gb": 40, "tier": "open", "backends": ["default", "kissat"], "bounds": "UTF-16LE stream BOM + 'a' + one supplementary scalar cut after 0, 1 or 2 code units, both policies", "desc": "same for UTF-16LE (lone high surrogate at the end of the stream)"}
//@ OBL {"name": "h13c_cut16be", "prop": "vp_h13c_cut16be", "assume": "va_h13c_16", "in": 12, "out": 8, "unwind": 8, "unwind_models": 20, "unwind_fn": {"^verif_stream_copy$": 20, "vp_h13c|prop_cut": 18}, "fs": 32, "cap_s": 3600, "mem_gb": 40, "tier": "open", "backends": ["default", "kissat"], "bounds": "UTF-16BE stream, same", "desc": "same for UTF-16BE"}
//@ OBL {"name": "h13b_utf8", "family": "h13b", "prop": "vp_h13b_utf8", "assume": "va_h13b", "in": 12, "out": 8, "unwind": 8, "unwind_models": 40, "unwind_fn": {"^verif_stream_copy$": 40, "vp_h13b": 44, "Utf8.*Decode": 40}, "fs": 0, "cap_s": 3600, "bounds": "UTF-8 stream, BOM on/off, 13..21 ASCII filler characters then 2 arbitrary non-NUL scalars (every alignment of a multi-byte character against the 32-byte chunk boundary)", "desc": "CEncodedStreamReader<char16_t,32>: text == reference transcoding, encoding detected, loop ends with EndFile", "tier": "open"}
//@ OBL {"name": "h13b_utf16le", "family": "h13b", "prop": "vp_h13b_utf16le", "assume": "va_h13b", "in": 12, "out": 8, "unwind": 8, "unwind_models": 40, "unwind_fn": {"^verif_stream_copy$": 40, "vp_h13b": 44, "Utf16.*Decode|Utf16.*Encode": 40}, "fs": 0, "cap_s": 3600, "bounds": "UTF-16LE stream, BOM on/off, filler then 2 arbitrary non-NUL scalars around the chunk boundary", "desc": "CEncodedStreamReader<char16_t,32> on UTF-16LE", "tier": "open"}
//@ OBL {"name": "h13b_utf16be", "family": "h13b", "prop": "vp_h13b_utf16be", "assume": "va_h13b", "in": 12, "out": 8, "unwind": 8, "unwind_models": 40, "unwind_fn": {"^verif_stream_copy$": 40, "vp_h13b": 44, "Utf16.*Decode|Utf16.*Encode|Reverse": 40}, "fs": 0, "cap_s": 3600, "bounds": "UTF-16BE stream, BOM on/off, filler then 2 arbitrary non-NUL scalars around the chunk boundary", "desc": "CEncodedStreamReader<char16_t,32> on UTF-16BE", "tier": "open"}
//@ VEC * 000102410000004200000043000000
//@ VEC * 0100014100000000000000000000
//@ VEC * 030001410000000000000000
//@ VEC * 0001054100000ac200000
//@ VEC h13c_cut8n 000302e9000000000000000000
//@ VEC h13c_cut8 00020120ac0000000000000000
//@ VEC h13c_cut8 0001024af60100000000000000
//@ VEC h13c_cut16le 0003024af60100000000000000
//@ VEC h13c_cut16be 0000044af60100000000000000
//@ VEC h13d_w8 000102e9000000ac20000000
//@ VEC h13d_w16le 0001024af6010041000000
//@ VEC h13d_w32be 000001ffff000000000000
//@ VEC h13d_w2_8 000100e900000001000000
