//@ PROPERTY C19
//@ IR2C --store-hook
//@ LINK msgpack/msgpack_writers.cpp
// C19: the operations of C06_writer.cpp re-decided with the store instrumentation (see C19_enum_utf.cpp for the argument): no store inside
// the operation window hits a mutable module-level object of the linked code, for every input within the bound.
#include "C06_writer.cpp"
// timestamp writer, all three forms (the byte layout itself is C06's subject - incl. its recorded finding F5; here: both writer
// classes produce the same bytes and neither stores to module-level state)
VH_EXPORT int vp_h19_ts(const unsigned char* in, unsigned char* out) {
	CBinTimestamp t = load_ts(in);
	Outs o; both([&](IMsgPackWriter& w) { w.WriteValue(t); }, o); dump(o, out);
	return o.rcs == vh::OK && same_bytes(o) && (o.ns == 6 || o.ns == 10 || o.ns == 15) && (o.ns == 15) == ((static_cast<uint64_t>(t.Seconds) >> 34) != 0);
}
//@ OBL {"name": "h19_ts", "prop": "vp_h19_ts", "assume": "va_h06d_ts", "in": 12, "out": 16, "unwind": 52, "bounds": "every int64 seconds, nanoseconds 0..999999999 (timestamp 32, 64 and 96)", "desc": "[C19 no-shared-write reading] WriteValue(CBinTimestamp): memory and stream writer agree, form chosen by the seconds range", "tier": "quick"}
//@ OBL {"name": "h19_h06a_i64", "prop": "vp_h06a_i64", "in": 8, "out": 16, "unwind": 52, "bounds": "every int64_t", "desc": "[C19 no-shared-write reading] WriteValue(int64_t)", "tier": "quick"}
//@ OBL {"name": "h19_h06c_str", "prop": "vp_h06c_str", "in": 8, "out": 16, "unwind": 52, "bounds": "string length 0..40 (fixstr/str8 threshold at 31/32), symbolic first and last byte", "desc": "[C19 no-shared-write reading] WriteValue(string_view): header + verbatim payload", "tier": "quick"}
//@ OBL {"name": "h19_h06d_tp_s", "prop": "vp_h06d_tp_s", "in": 8, "out": 16, "unwind": 4, "bounds": "every int64 count", "desc": "[C19 no-shared-write reading] To(time_point<s>, CBinTimestamp&)", "tier": "quick"}
//@ OBL {"name": "h19_h06b_double", "prop": "vp_h06b_double", "in": 8, "out": 16, "unwind": 52, "bounds": "every 64-bit pattern", "desc": "[C19 no-shared-write reading] WriteValue(double), memory and stream writer", "tier": "quick"}
//@ OBL {"name": "h19_h06c_array", "prop": "vp_h06c_array", "in": 8, "out": 16, "unwind": 52, "bounds": "every size_t count", "desc": "[C19 no-shared-write reading] BeginArray, memory and stream writer", "tier": "quick"}
//@ VEC * 7f00000000000000
//@ VEC * 8000000000000000
//@ VEC * feca000000000000
//@ VEC * 30fe08ca00000000
//@ VEC * 3012feca3018feca
//@ VEC * 0080ffffffffffff
//@ VEC * 403020100000000004030201
//@ VEC * 08070605040302010c0b0a09
