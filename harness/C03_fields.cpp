//@ PROPERTY C03
//@ LINK msgpack/msgpack_readers.cpp common/binary_stream_reader.cpp
//@ MODELDEF VERIF_STRLEN_ZERO
//@ STUB _ZSt8to_charsPcS_d _ZSt8to_charsPcS_f
//@ OVERRIDE _ZN13BitSerializer7Convert6Detail2ToImcSaIcELi0EEEvRKT_RNSt7__cxx1112basic_stringIT0_St11char_traitsIS9_ET1_EE
// C03: named fields in any request order (MsgPack object scope, msgpack_archive.h).
//  h03a  CMsgPackReadObjectScope over the real string reader: document {"a":va, "b":vb} followed by a sentinel; a SYMBOLIC
//        sequence of 3 requests over the keys a / b / z(absent), targets pre-set; each request returns exactly the stored value
//        or "not loaded" with the target unchanged; after the scope is destroyed the sentinel is read intact.
//  h03k  CVariableKey::operator== (the key matcher of FindValueByKey) for integer keys: stored unsigned/signed 64-bit key
//        versus a requested key of every integer type - equal iff mathematically equal.
#include "mp_scopes.h"
using namespace mps;
template <int K0, int K1, int K2> static inline int h03a_run(const unsigned char* in, unsigned char* out) {
	const unsigned char va = in[0], vb = in[1];
	unsigned char doc[10] = { 0x82, 0xa1, 'a', 0xcc, va, 0xa1, 'b', 0xcc, vb, 0x2a };     // values in the uint 8 format: payload symbolic
	SerializationOptions opt = options(0);
	CMsgPackStringReader r(std::string_view(reinterpret_cast<const char*>(doc), 10), opt);
	SerializationContext ctx(opt);
	static const char keys[3] = { 'a', 'b', 'z' };
	const int ks[3] = { K0, K1, K2 };
	int got[3] = { -1, -1, -1 }; bool res[3] = { false, false, false }; int sentinel = 0;
	verif_symbolic_phase();
	int rc = outcome([&] {
		size_t sz = 0; if (!r.ReadMapSize(sz)) return false;
		{
			ObjScope scope(sz, &r, ctx);
			for (int i = 0; i < 3; i++) { got[i] = 1000 + i; res[i] = scope.SerializeValue(std::string_view(&keys[ks[i]], 1), got[i]); }
		}
		return true;
	});
	int rc2 = outcome([&] { return r.ReadValue(sentinel); });
	out[0] = (unsigned char)rc; out[1] = (unsigned char)rc2; for (int i = 0; i < 3; i++) { out[2 + i] = res[i]; out[5 + i] = (unsigned char)got[i]; } out[8] = (unsigned char)r.GetPosition();
	if (rc != vh::OK) return 0;
	for (int i = 0; i < 3; i++) {
		if (ks[i] == 2) { if (res[i] || got[i] != 1000 + i) return 0; }
		else { if (!res[i] || got[i] != (ks[i] == 0 ? va : vb)) return 0; }
	}
	return rc2 == vh::OK && sentinel == 42 && r.GetPosition() == 10;
}
#define O3(name, a, b, c) VH_EXPORT int vp_h03a_##name(const unsigned char* in, unsigned char* out) { return h03a_run<a, b, c>(in, out); }
O3(aba, 0, 1, 0) O3(baz, 1, 0, 2) O3(zab, 2, 0, 1) O3(bba, 1, 1, 0) O3(azb, 0, 2, 1) O3(zzz, 2, 2, 2) O3(abz, 0, 1, 2) O3(aaa, 0, 0, 0)
// ---- h03k
template <class TStored, class TReq> static inline int prop_key(const unsigned char* in, unsigned char* out) {
	MsgPackVariableKey key;
	TStored stored = vh::rd<TStored>(in); TReq req = vh::rd<TReq>(in + 8);
	key.GetValueRef<TStored>() = stored;
	bool eq = key == req;
	out[0] = eq;
	typedef __int128 i128;
	return eq == ((i128)stored == (i128)req);
}
#define K(name, S, R) VH_EXPORT int vp_h03k_##name(const unsigned char* in, unsigned char* out) { return prop_key<S, R>(in, out); }
K(u_i8, uint64_t, int8_t) K(u_i32, uint64_t, int32_t) K(u_i64, uint64_t, int64_t) K(u_u16, uint64_t, uint16_t) K(u_u64, uint64_t, uint64_t)
K(s_i16, int64_t, int16_t) K(s_i64, int64_t, int64_t) K(s_u32, int64_t, uint32_t) K(s_u64, int64_t, uint64_t)
//@ OBL {"name": "h03a_aba", "family": "h03a", "prop": "vp_h03a_aba", "in": 8, "out": 16, "unwind": 6, "fs": 32, "unwind_fn": {"SkipValueImpl": 1}, "recursion": {"SkipValueImpl": 0}, "cap_s": 3600, "bounds": "document {a:va,b:vb}+sentinel, values uint8 with symbolic payload; request sequence a-b-a (z = absent key)", "desc": "object scope: out-of-order / repeated / absent requests return the stored value or not-loaded with the target unchanged; unread rest skipped; sentinel intact", "tier": "open"}
//@ OBL {"name": "h03a_baz", "family": "h03a", "prop": "vp_h03a_baz", "in": 8, "out": 16, "unwind": 6, "fs": 32, "unwind_fn": {"SkipValueImpl": 1}, "recursion": {"SkipValueImpl": 0}, "cap_s": 3600, "bounds": "document {a:va,b:vb}+sentinel, values uint8 with symbolic payload; request sequence b-a-z (z = absent key)", "desc": "object scope: out-of-order / repeated / absent requests return the stored value or not-loaded with the target unchanged; unread rest skipped; sentinel intact", "tier": "open"}
//@ OBL {"name": "h03a_zab", "family": "h03a", "prop": "vp_h03a_zab", "in": 8, "out": 16, "unwind": 6, "fs": 32, "unwind_fn": {"SkipValueImpl": 1}, "recursion": {"SkipValueImpl": 0}, "cap_s": 3600, "bounds": "document {a:va,b:vb}+sentinel, values uint8 with symbolic payload; request sequence z-a-b (z = absent key)", "desc": "object scope: out-of-order / repeated / absent requests return the stored value or not-loaded with the target unchanged; unread rest skipped; sentinel intact", "tier": "open"}
//@ OBL {"name": "h03a_bba", "family": "h03a", "prop": "vp_h03a_bba", "in": 8, "out": 16, "unwind": 6, "fs": 32, "unwind_fn": {"SkipValueImpl": 1}, "recursion": {"SkipValueImpl": 0}, "cap_s": 3600, "bounds": "document {a:va,b:vb}+sentinel, values uint8 with symbolic payload; request sequence b-b-a (z = absent key)", "desc": "object scope: out-of-order / repeated / absent requests return the stored value or not-loaded with the target unchanged; unread rest skipped; sentinel intact", "tier": "open"}
//@ OBL {"name": "h03a_azb", "family": "h03a", "prop": "vp_h03a_azb", "in": 8, "out": 16, "unwind": 6, "fs": 32, "unwind_fn": {"SkipValueImpl": 1}, "recursion": {"SkipValueImpl": 0}, "cap_s": 3600, "bounds": "document {a:va,b:vb}+sentinel, values uint8 with symbolic payload; request sequence a-z-b (z = absent key)", "desc": "object scope: out-of-order / repeated / absent requests return the stored value or not-loaded with the target unchanged; unread rest skipped; sentinel intact", "tier": "open"}
//@ OBL {"name": "h03a_zzz", "family": "h03a", "prop": "vp_h03a_zzz", "in": 8, "out": 16, "unwind": 6, "fs": 32, "unwind_fn": {"SkipValueImpl": 1}, "recursion": {"SkipValueImpl": 0}, "cap_s": 3600, "bounds": "document {a:va,b:vb}+sentinel, values uint8 with symbolic payload; request sequence z-z-z (z = absent key)", "desc": "object scope: out-of-order / repeated / absent requests return the stored value or not-loaded with the target unchanged; unread rest skipped; sentinel intact", "tier": "open"}
//@ OBL {"name": "h03a_abz", "family": "h03a", "prop": "vp_h03a_abz", "in": 8, "out": 16, "unwind": 6, "fs": 32, "unwind_fn": {"SkipValueImpl": 1}, "recursion": {"SkipValueImpl": 0}, "cap_s": 3600, "bounds": "document {a:va,b:vb}+sentinel, values uint8 with symbolic payload; request sequence a-b-z (z = absent key)", "desc": "object scope: out-of-order / repeated / absent requests return the stored value or not-loaded with the target unchanged; unread rest skipped; sentinel intact", "tier": "open"}
//@ OBL {"name": "h03a_aaa", "family": "h03a", "prop": "vp_h03a_aaa", "in": 8, "out": 16, "unwind": 6, "fs": 32, "unwind_fn": {"SkipValueImpl": 1}, "recursion": {"SkipValueImpl": 0}, "cap_s": 3600, "bounds": "document {a:va,b:vb}+sentinel, values uint8 with symbolic payload; request sequence a-a-a (z = absent key)", "desc": "object scope: out-of-order / repeated / absent requests return the stored value or not-loaded with the target unchanged; unread rest skipped; sentinel intact", "tier": "open"}
//@ OBL {"name": "h03k_u_i8", "family": "h03k", "prop": "vp_h03k_u_i8", "in": 16, "out": 8, "unwind": 2, "bounds": "every stored uint64 key, every requested int8", "desc": "CVariableKey: stored unsigned vs requested signed key"}
//@ OBL {"name": "h03k_u_i32", "family": "h03k", "prop": "vp_h03k_u_i32", "in": 16, "out": 8, "unwind": 2, "bounds": "every uint64 x int32", "desc": "CVariableKey: stored unsigned vs requested int32"}
//@ OBL {"name": "h03k_u_i64", "family": "h03k", "prop": "vp_h03k_u_i64", "in": 16, "out": 8, "unwind": 2, "bounds": "every uint64 x int64", "desc": "CVariableKey: stored unsigned vs requested int64"}
//@ OBL {"name": "h03k_u_u16", "family": "h03k", "prop": "vp_h03k_u_u16", "in": 16, "out": 8, "unwind": 2, "bounds": "every uint64 x uint16", "desc": "CVariableKey: unsigned vs unsigned"}
//@ OBL {"name": "h03k_u_u64", "family": "h03k", "prop": "vp_h03k_u_u64", "in": 16, "out": 8, "unwind": 2, "bounds": "every uint64 x uint64", "desc": "CVariableKey: unsigned vs unsigned"}
//@ OBL {"name": "h03k_s_i16", "family": "h03k", "prop": "vp_h03k_s_i16", "in": 16, "out": 8, "unwind": 2, "bounds": "every int64 x int16", "desc": "CVariableKey: stored signed vs requested signed"}
//@ OBL {"name": "h03k_s_i64", "family": "h03k", "prop": "vp_h03k_s_i64", "in": 16, "out": 8, "unwind": 2, "bounds": "every int64 x int64", "desc": "CVariableKey: signed vs signed"}
//@ OBL {"name": "h03k_s_u32", "family": "h03k", "prop": "vp_h03k_s_u32", "in": 16, "out": 8, "unwind": 2, "bounds": "every int64 x uint32", "desc": "CVariableKey: stored signed vs requested unsigned"}
//@ OBL {"name": "h03k_s_u64", "family": "h03k", "prop": "vp_h03k_s_u64", "in": 16, "out": 8, "unwind": 2, "bounds": "every int64 x uint64", "desc": "CVariableKey: stored signed vs requested uint64"}
//@ VEC * 0506000102000000
//@ VEC * ffffffffffffffffffffffffffffffff
