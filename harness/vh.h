// Common helpers for harness translation units (compiled to LLVM IR for the solver AND natively for replay).
#pragma once
#include <cstdint>
#include <cstring>
#include <stdexcept>
#include <exception>

// After the concrete set-up phase: from here on container growth is a checked capacity bound in the
// symbolic build (DESIGN.md 2.1).  No-op natively.
extern "C" void verif_symbolic_phase(void);
// Registers a pre-sized string/vector whose buffer is indexed symbolically: it must not grow in the symbolic phase.
extern "C" void verif_nogrow(void* container);

// PrintIsoUtc's snprintf: mode 0 = exact digits, 1 = exact length with placeholder digits (symbolic build only; no-ops natively)
extern "C" void verif_snprintf_mode(int mode);
extern "C" long verif_snprintf_arg(int index);
namespace vh {
// outcome codes of observation functions
enum : int { OK = 0, NOT_LOADED = 1, PARSING = 2, SER_BASE = 10, OUT_OF_RANGE = 20, INVALID_ARGUMENT = 21, STD_EXCEPTION = 22, NON_STD = 23 };

template <class T> inline T rd(const unsigned char* p) { T v; std::memcpy(&v, p, sizeof(T)); return v; }
template <> inline bool rd<bool>(const unsigned char* p) { return (*p & 1) != 0; }
template <class T> inline void wr(unsigned char* p, const T& v) { std::memcpy(p, &v, sizeof(T)); }

// run f(), map the escaping exception (if any) to an outcome code; the catch clauses are real C++
template <class F> inline int outcome(F&& f) {
	try { f(); return OK; }
	catch (const std::out_of_range&) { return OUT_OF_RANGE; }
	catch (const std::invalid_argument&) { return INVALID_ARGUMENT; }
	catch (const std::exception&) { return STD_EXCEPTION; }
	catch (...) { return NON_STD; }
}
}
namespace vh {
// calendar fields of an ISO text the library just printed: symbolic build = the arguments it passed to snprintf; native = parsed
inline void iso_parts(const char* text, size_t n, long parts[6]) {
#ifdef VERIF_SYMBOLIC
	(void)text; (void)n;
	for (int i = 0; i < 6; i++) parts[i] = verif_snprintf_arg(i);
#else
	for (int i = 0; i < 6; i++) parts[i] = -1;
	size_t p = 0; bool neg = false;
	if (p < n && text[p] == '+') p++;
	if (p < n && text[p] == '-') { neg = true; p++; }
	for (int f = 0; f < 6; f++) {
		long v = 0; bool any = false;
		while (p < n && text[p] >= '0' && text[p] <= '9') { v = v * 10 + (text[p] - '0'); p++; any = true; }
		if (!any) return;
		parts[f] = (f == 0 && neg) ? -v : v;
		if (f < 5) p++;   // separator
	}
#endif
}
}
#define VH_EXPORT extern "C" __attribute__((noinline))
