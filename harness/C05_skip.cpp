//@ PROPERTY C05
//@ LINK msgpack/msgpack_readers.cpp common/binary_stream_reader.cpp
//@ MODELDEF VERIF_STRLEN_ZERO
//@ OVERRIDE _ZN13BitSerializer7Convert6Detail2ToImcSaIcELi0EEEvRKT_RNSt7__cxx1112basic_stringIT0_St11char_traitsIS9_ET1_EE
// C05: a skipped value never disturbs its neighbours (MsgPack).
//  h05a  SkipValue() / a policy skip consumes EXACTLY the value (reference length from the spec), for every byte string <= 6
//        bytes with containers nested <= 2 deep (truncated -> parsing error)
//  h05b  array scope accounting (CMsgPackReadArrayScope): fixarray(3) of one-byte elements of symbolic kinds
//        {fixint, nil, true/false, fixstr0, fixarray0, fixmap0, negative fixint} followed by a sentinel, read into int slots
//        with the Skip policies: well-typed elements land in their own slot, offending slots keep the old value and report
//        false, IsEnd() after 3 requests, the sentinel is read intact.
//  h05d  byte containers: OpenBinaryScope then array fallback inside an array scope, element stored as bin / as array / as
//        another kind: the NEXT element and the sentinel are unaffected.
#include "mp_scopes.h"
using namespace mps;
// ---- h05a
static constexpr size_t NA = 6;
VH_EXPORT int va_h05a(const unsigned char* in) { size_t n = in[0]; return n <= NA && depth_of(in + 2, n, 3) <= 2; }
VH_EXPORT int vp_h05a_skip(const unsigned char* in, unsigned char* out) {
	size_t n = in[0] <= NA ? in[0] : NA; const unsigned char* b = in + 2;
	SerializationOptions opt = options(3);
	CMsgPackStringReader r(std::string_view(reinterpret_cast<const char*>(b), n), opt);
	verif_symbolic_phase();
	int rc = outcome([&] { r.SkipValue(); return true; });
	size_t pos = r.GetPosition();
	out[0] = (unsigned char)rc; out[1] = (unsigned char)pos;
	size_t total = mp::total_len(b, n, 3);
	if (total == 0) return rc == RC_PARSING;
	return rc == vh::OK && pos == total;
}
// ---- h05a': long strings / binaries: str8, str16, bin8, bin16 with a symbolic length 0..300 and a sentinel behind the payload
VH_EXPORT int vp_h05a_long(const unsigned char* in, unsigned char* out) {
	static unsigned char doc[310];
	unsigned form = in[0] & 3; size_t len = vh::rd<uint16_t>(in + 1) % 301; size_t n = 0;
	static const unsigned char codes[4] = { 0xd9, 0xc4, 0xda, 0xc5 };
	if ((form & 2) == 0 && len > 255) len = 255;
	doc[n++] = codes[form]; if (form & 2) doc[n++] = (unsigned char)(len >> 8); doc[n++] = (unsigned char)len;
	for (size_t i = 0; i < 301; i++) doc[n + i] = 'x';
	size_t hdr = n; n += len; doc[n++] = 0x2a;
	SerializationOptions opt = options(3);
	CMsgPackStringReader r(std::string_view(reinterpret_cast<const char*>(doc), n), opt);
	verif_symbolic_phase();
	int target = 5; int sentinel = 0;
	int rc = outcome([&] { return r.ReadValue(target); });          // mismatched kind under Skip: the whole string/binary is skipped
	size_t pos = r.GetPosition();
	int rc2 = outcome([&] { return r.ReadValue(sentinel); });
	out[0] = (unsigned char)rc; out[1] = (unsigned char)rc2; vh::wr(out + 2, (uint16_t)pos);
	return rc == vh::NOT_LOADED && target == 5 && pos == hdr + len && rc2 == vh::OK && sentinel == 42;
}
// ---- h05b
static inline bool elem_is_int(unsigned b) { return b <= 0x7f || b >= 0xe0; }
static inline bool elem_allowed(unsigned b) { return b <= 0x7f || b >= 0xe0 || b == 0xc0 || b == 0xc2 || b == 0xc3 || b == 0xa0 || b == 0x90 || b == 0x80; }
VH_EXPORT int va_h05b(const unsigned char* in) { return elem_allowed(in[0]) && elem_allowed(in[1]) && elem_allowed(in[2]); }
VH_EXPORT int vp_h05b_array(const unsigned char* in, unsigned char* out) {
	unsigned char doc[5] = { 0x93, in[0], in[1], in[2], 0x2a };     // [e0,e1,e2] then sentinel 42
	SerializationOptions opt = options(3);                           // both Skip
	CMsgPackStringReader r(std::string_view(reinterpret_cast<const char*>(doc), 5), opt);
	SerializationContext ctx(opt);
	int t[3] = { 1000 + in[3], 2000 + in[3], 3000 + in[3] }; int old[3] = { t[0], t[1], t[2] };
	bool res[3] = { false, false, false }; bool end_before = true, end_after = false; int sentinel = 0; bool sres = false;
	verif_symbolic_phase();
	int rc = outcome([&] {
		size_t sz = 0; if (!r.ReadArraySize(sz)) return false;
		ArrScope scope(sz, &r, ctx);
		end_before = scope.IsEnd();
		for (int i = 0; i < 3; i++) {
			// bool elements load into int slots as 0/1 (documented conversion) - handled by the oracle below
			res[i] = scope.SerializeValue(t[i]);
		}
		end_after = scope.IsEnd();
		return true;
	});
	int rc2 = outcome([&] { sres = r.ReadValue(sentinel); return sres; });
	out[0] = (unsigned char)rc; out[1] = (unsigned char)rc2; out[2] = (unsigned char)r.GetPosition(); for (int i = 0; i < 3; i++) { out[3 + i] = res[i]; out[6 + i] = (unsigned char)t[i]; }
	if (rc != vh::OK || end_before || !end_after) return 0;
	for (int i = 0; i < 3; i++) {
		unsigned e = in[i];
		if (elem_is_int(e)) { if (!res[i] || t[i] != (int)(int8_t)e) return 0; }
		else if (e == 0xc2 || e == 0xc3) { if (res[i] ? t[i] != (int)(e == 0xc3) : t[i] != old[i]) return 0; }     // bool: converted or skipped
		else { if (res[i] || t[i] != old[i]) return 0; }
	}
	return rc2 == vh::OK && sentinel == 42 && r.GetPosition() == 5;
}
// ---- h05d: [X, 7] + sentinel, X symbolic 1..3-byte element read as byte container (binary first, then array), then int
VH_EXPORT int va_h05d(const unsigned char* in) {
	// X is one complete value out of: nil, true, fixint, empty array/str, bin8 of 0..1 bytes, fixarray of 1..2 fixints, fixstr(1), uint8, uint16
	const unsigned char* x = in + 1;
	if (in[0] == 1) return x[0] == 0xc0 || x[0] <= 0x7f || x[0] == 0x90 || x[0] == 0xa0 || x[0] == 0xc3;
	if (in[0] == 2) return (x[0] == 0xc4 && x[1] == 0) || (x[0] == 0x91 && x[1] <= 0x7f) || x[0] == 0xa1 || (x[0] == 0xcc);
	if (in[0] == 3) return (x[0] == 0xc4 && x[1] == 1) || (x[0] == 0x92 && x[1] <= 0x7f && x[2] <= 0x7f) || x[0] == 0xcd;
	return 0;
}
static inline int h05d_run(const unsigned char* in, unsigned char* out) {
	size_t xl = in[0] <= 3 ? in[0] : 3;
	unsigned char doc[8]; size_t n = 0; doc[n++] = 0x92; for (size_t i = 0; i < 3; i++) if (i < xl) doc[n++] = in[1 + i]; doc[n++] = 0x07; doc[n++] = 0x2a;
	SerializationOptions opt = options(3);
	CMsgPackStringReader r(std::string_view(reinterpret_cast<const char*>(doc), n), opt);
	SerializationContext ctx(opt);
	unsigned char bytes[2] = { 0xEE, 0xEE }; size_t nbytes = 0; bool got_bin = false, got_arr = false; int second = -1; bool second_ok = false, end_after = false; int sentinel = 0;
	verif_symbolic_phase();
	int rc = outcome([&] {
		size_t sz = 0; if (!r.ReadArraySize(sz)) return false;
		ArrScope scope(sz, &r, ctx);
		{
			auto bs = scope.OpenBinaryScope(0);
			if (bs) { got_bin = true; while (!bs->IsEnd() && nbytes < 2) { bs->SerializeValue(bytes[nbytes]); nbytes++; } }
			else {
				auto as = scope.OpenArrayScope(0);
				if (as) { got_arr = true; while (!as->IsEnd() && nbytes < 2) { if (!as->SerializeValue(bytes[nbytes])) break; nbytes++; } }
			}
		}
		second_ok = scope.SerializeValue(second);
		end_after = scope.IsEnd();
		return true;
	});
	int rc2 = outcome([&] { return r.ReadValue(sentinel); });
	out[0] = (unsigned char)rc; out[1] = (unsigned char)rc2; out[2] = got_bin; out[3] = got_arr; out[4] = (unsigned char)nbytes; out[5] = bytes[0]; out[6] = (unsigned char)second; out[7] = (unsigned char)r.GetPosition();
	if (rc != vh::OK) return 0;
	mp::Obj x = mp::decode(in + 1, xl);
	if (x.kind == mp::Bin) { if (!got_bin || nbytes != x.len || (x.len == 1 && bytes[0] != in[1 + x.hdr])) return 0; }
	else if (x.kind == mp::Array) { if (got_bin || !got_arr) return 0; }
	else { if (got_bin || got_arr) return 0; }
	// the neighbour and the sentinel are intact whatever X was
	return second_ok && second == 7 && end_after && rc2 == vh::OK && sentinel == 42 && r.GetPosition() == n;
}
VH_EXPORT int vp_h05d_bytes(const unsigned char* in, unsigned char* out) { return h05d_run(in, out); }
// concrete shapes with symbolic leaves (cheap enough for the quick tier): X = nil | fixint v | [] | bin8{b} | [v] | "c" | bin8{}
template <int SHAPE> static inline int h05d_shape(const unsigned char* in, unsigned char* out) {
	unsigned char x[4] = { 0, 0, 0, 0 };
	if (SHAPE == 0) { x[0] = 1; x[1] = 0xc0; }
	else if (SHAPE == 1) { x[0] = 1; x[1] = in[0] & 0x7f; }
	else if (SHAPE == 2) { x[0] = 1; x[1] = 0x90; }
	else if (SHAPE == 3) { x[0] = 3; x[1] = 0xc4; x[2] = 1; x[3] = in[0]; }
	else if (SHAPE == 4) { x[0] = 2; x[1] = 0x91; x[2] = in[0] & 0x7f; }
	else if (SHAPE == 5) { x[0] = 2; x[1] = 0xa1; x[2] = in[0]; }
	else { x[0] = 2; x[1] = 0xc4; x[2] = 0; }
	return h05d_run(x, out);
}
VH_EXPORT int vp_h05d_nil(const unsigned char* in, unsigned char* out) { return h05d_shape<0>(in, out); }
VH_EXPORT int vp_h05d_int(const unsigned char* in, unsigned char* out) { return h05d_shape<1>(in, out); }
VH_EXPORT int vp_h05d_arr0(const unsigned char* in, unsigned char* out) { return h05d_shape<2>(in, out); }
VH_EXPORT int vp_h05d_bin1(const unsigned char* in, unsigned char* out) { return h05d_shape<3>(in, out); }
VH_EXPORT int vp_h05d_arr1(const unsigned char* in, unsigned char* out) { return h05d_shape<4>(in, out); }
VH_EXPORT int vp_h05d_str1(const unsigned char* in, unsigned char* out) { return h05d_shape<5>(in, out); }
VH_EXPORT int vp_h05d_bin0(const unsigned char* in, unsigned char* out) { return h05d_shape<6>(in, out); }
//@ OBL {"name": "h05a_skip5", "prop": "vp_h05a_skip", "assume": "va_h05a", "in": 8, "out": 8, "unwind": 8, "unwind_fn": {"SkipValueImpl": 6, "total_len|depth_of": 6}, "recursion": {"SkipValueImpl": 1, "total_len": 2, "depth_of": 2}, "cap_s": 3600, "mem_gb": 20, "bounds": "every byte string of length <= 5, containers nested <= 1 deep (thorough: 6 bytes, 2 deep)", "desc": "SkipValue() consumes exactly one value (reference length) or reports a parsing error for truncated input", "cassume": ["in[0] <= 5"], "tier": "open"}
//@ OBL {"name": "h05b_array", "prop": "vp_h05b_array", "assume": "va_h05b", "in": 8, "out": 16, "unwind": 8, "unwind_fn": {"SkipValueImpl": 1}, "recursion": {"SkipValueImpl": 0}, "cap_s": 900, "bounds": "fixarray(3) of one-byte elements of every kind among fixint / negative fixint / nil / bool / empty str / empty array / empty map, Skip policies", "desc": "array scope: skipped elements keep their slot untouched and report false, others load into their own slot, IsEnd after 3 requests, following data intact", "fs": 32}
//@ OBL {"name": "h05d_nil", "family": "h05d", "prop": "vp_h05d_nil", "in": 8, "out": 16, "unwind": 6, "unwind_fn": {"SkipValueImpl": 3}, "recursion": {"SkipValueImpl": 1}, "cap_s": 900, "bounds": "array [X, 7] + sentinel with X = nil", "desc": "byte-container element (binary scope, array fallback, or skipped kind): the next element and the sentinel are read intact", "fs": 32}
//@ OBL {"name": "h05d_int", "family": "h05d", "prop": "vp_h05d_int", "in": 8, "out": 16, "unwind": 6, "unwind_fn": {"SkipValueImpl": 3}, "recursion": {"SkipValueImpl": 1}, "cap_s": 3600, "bounds": "array [X, 7] + sentinel with X = a fixint (symbolic)", "desc": "byte-container element (binary scope, array fallback, or skipped kind): the next element and the sentinel are read intact", "fs": 32, "tier": "open"}
//@ OBL {"name": "h05d_arr0", "family": "h05d", "prop": "vp_h05d_arr0", "in": 8, "out": 16, "unwind": 6, "unwind_fn": {"SkipValueImpl": 3}, "recursion": {"SkipValueImpl": 1}, "cap_s": 900, "bounds": "array [X, 7] + sentinel with X = an empty array", "desc": "byte-container element (binary scope, array fallback, or skipped kind): the next element and the sentinel are read intact", "fs": 32}
//@ OBL {"name": "h05d_bin1", "family": "h05d", "prop": "vp_h05d_bin1", "in": 8, "out": 16, "unwind": 6, "unwind_fn": {"SkipValueImpl": 3}, "recursion": {"SkipValueImpl": 1}, "cap_s": 3600, "bounds": "array [X, 7] + sentinel with X = bin8 with one symbolic byte", "desc": "byte-container element (binary scope, array fallback, or skipped kind): the next element and the sentinel are read intact", "fs": 32, "tier": "open"}
//@ OBL {"name": "h05d_arr1", "family": "h05d", "prop": "vp_h05d_arr1", "in": 8, "out": 16, "unwind": 6, "unwind_fn": {"SkipValueImpl": 3}, "recursion": {"SkipValueImpl": 1}, "cap_s": 3600, "bounds": "array [X, 7] + sentinel with X = an array of one symbolic fixint", "desc": "byte-container element (binary scope, array fallback, or skipped kind): the next element and the sentinel are read intact", "fs": 32, "tier": "open"}
//@ OBL {"name": "h05d_str1", "family": "h05d", "prop": "vp_h05d_str1", "in": 8, "out": 16, "unwind": 6, "unwind_fn": {"SkipValueImpl": 3}, "recursion": {"SkipValueImpl": 1}, "cap_s": 3600, "bounds": "array [X, 7] + sentinel with X = a one-character string", "desc": "byte-container element (binary scope, array fallback, or skipped kind): the next element and the sentinel are read intact", "fs": 32, "tier": "open"}
//@ OBL {"name": "h05d_bin0", "family": "h05d", "prop": "vp_h05d_bin0", "in": 8, "out": 16, "unwind": 6, "unwind_fn": {"SkipValueImpl": 3}, "recursion": {"SkipValueImpl": 1}, "cap_s": 900, "bounds": "array [X, 7] + sentinel with X = an empty bin8", "desc": "byte-container element (binary scope, array fallback, or skipped kind): the next element and the sentinel are read intact", "fs": 32}
//@ OBL {"name": "h05d_bytes", "prop": "vp_h05d_bytes", "assume": "va_h05d", "in": 8, "out": 16, "unwind": 8, "unwind_fn": {"SkipValueImpl": 3}, "recursion": {"SkipValueImpl": 1, "total_len": 1}, "cap_s": 3600, "bounds": "array [X, 7] + sentinel where X ranges over nil, true, fixint, empty array/str, bin8(0..1), fixarray(1..2 fixints), fixstr(1), uint8, uint16", "desc": "byte container element: binary scope first, array fallback, other kinds skipped - the next element and the sentinel are read intact", "tier": "open", "fs": 32}
//@ OBL {"name": "h05a_long", "prop": "vp_h05a_long", "in": 8, "out": 8, "unwind": 8, "unwind_models": 310, "unwind_fn": {"SkipValueImpl": 1, "vp_h05a_long": 310}, "recursion": {"SkipValueImpl": 0}, "cap_s": 900, "bounds": "str8 / bin8 / str16 / bin16 with every length 0..300 (constant payload) followed by a sentinel", "desc": "skipping a mismatching long string/binary consumes header + payload exactly; the sentinel is read intact"}
//@ OBL {"name": "h05a_skip_T", "tier": "open", "prop": "vp_h05a_skip", "assume": "va_h05a", "in": 8, "out": 8, "unwind": 8, "unwind_fn": {"SkipValueImpl": 7, "total_len|depth_of": 7}, "recursion": {"SkipValueImpl": 2, "total_len": 3, "depth_of": 3}, "cap_s": 3600, "mem_gb": 24, "bounds": "every byte string of length <= 6, containers nested <= 2 deep", "desc": "SkipValue() consumes exactly one value"}
//@ VEC * 0100c00000000000
//@ VEC * 03009201c0000000
//@ VEC * 0500a3414243440000
//@ VEC * 01c0a00500000000
//@ VEC * 03c4010900000000
