//@ PROPERTY C19
//@ IR2C --store-hook
// C19 (sufficient condition for "independent operations on different threads do not interfere"): an operation writes only to
// memory it owns.  The translator instruments EVERY store / memcpy / memset destination executed after the harness opened the
// operation window (verif_symbolic_phase) with the assertion that it does not hit a mutable module-level object or function-local
// static of the linked code (one-time initialisation under __cxa_guard_acquire/release excepted: the ABI serialises it);
// static registration (REGISTER_ENUM tables, default options) runs before the window, as it does before main().
// If no operation writes shared state, operations on disjoint private data satisfy Bernstein's conditions.
// Here: enum <-> string conversions through the shared EnumRegistry tables, UTF transcoding with the shared default error mark.
#include "vh.h"
#include <string>
#include "bitserializer/convert.h"
using namespace BitSerializer;
VH_EXPORT int vp_h19_enum(const unsigned char* in, unsigned char* out) {
	std::string s; s.reserve(24); verif_nogrow(&s);
	verif_symbolic_phase();
	Convert::Utf::UtfType t = static_cast<Convert::Utf::UtfType>(in[0] % 5);
	int rc = vh::outcome([&] { Convert::Detail::To(t, s); });
	Convert::Utf::UtfType back = Convert::Utf::UtfType::Utf8;
	int rc2 = vh::outcome([&] { Convert::Detail::To(std::string_view(s.data(), s.size()), back); });
	out[0] = (unsigned char)rc; out[1] = (unsigned char)rc2; out[2] = (unsigned char)back;
	return rc == vh::OK && rc2 == vh::OK && back == t;
}
VH_EXPORT int vp_h19_utf(const unsigned char* in, unsigned char* out) {
	std::u16string s; s.reserve(16); verif_nogrow(&s);
	verif_symbolic_phase();
	const char* p = reinterpret_cast<const char*>(in + 1); size_t n = in[0] % 4;
	auto r = Convert::Utf::Utf8::Decode(p, p + n, s);            // Skip policy with the shared default error mark
	out[0] = (unsigned char)r.ErrorCode; out[1] = (unsigned char)s.size();
	return 1;
}
//@ OBL {"name":"h19_enum","prop":"vp_h19_enum","in":8,"out":8,"unwind":12,"fs":32,"bounds":"every registered value of the enum, print and parse through the shared registry","desc":"enum <-> string conversion writes no shared state (and round-trips)"}
//@ OBL {"name":"h19_utf","prop":"vp_h19_utf","in":8,"out":8,"unwind":8,"bounds":"every UTF-8 string of length <= 3","desc":"UTF transcoding with the default (shared, read-only) error mark writes no shared state"}
//@ VEC * 00000000
//@ VEC * 03e282ac
