// Memory-backed std::istream / std::ostream for harnesses.  Natively these are real libstdc++ streams over a trivial
// streambuf (get/put area = the caller's buffer).  In the symbolic build the out-of-line libstdc++ members
// (istream::read/peek/seekg/tellg, ostream::put/write, basic_ios::init/clear, ios_base ctor/dtor, locale) are replaced by
// the models in engine/models/verif_models.h, which operate on the streambuf's get/put area pointers and the real
// ios_base state word - so inline code such as eof()/fail() that the library executes works on the real object layout.
#pragma once
#include <istream>
#include <ostream>
#include <streambuf>
namespace vh {
class MemInBuf final : public std::streambuf {
public:
	MemInBuf(const char* data, size_t n) { char* p = const_cast<char*>(data); setg(p, p, p + n); }
	size_t pos() const { return static_cast<size_t>(gptr() - eback()); }
protected:
	pos_type seekoff(off_type off, std::ios_base::seekdir dir, std::ios_base::openmode which) override {
		if (!(which & std::ios_base::in)) return pos_type(off_type(-1));
		off_type base = dir == std::ios_base::beg ? 0 : dir == std::ios_base::cur ? gptr() - eback() : egptr() - eback();
		off_type np = base + off;
		if (np < 0 || np > egptr() - eback()) return pos_type(off_type(-1));
		setg(eback(), eback() + np, egptr());
		return pos_type(np);
	}
	pos_type seekpos(pos_type pos, std::ios_base::openmode which) override { return seekoff(off_type(pos), std::ios_base::beg, which); }
};
class MemOutBuf final : public std::streambuf {
public:
	MemOutBuf(char* data, size_t cap) { setp(data, data + cap); }
	size_t written() const { return static_cast<size_t>(pptr() - pbase()); }
};
class MemIStream final : public std::istream {
public:
	MemIStream(const char* data, size_t n) : std::istream(nullptr), mBuf(data, n) { init(&mBuf); }
	size_t pos() const { return mBuf.pos(); }      // get position regardless of the state flags
private:
	MemInBuf mBuf;
};
class MemOStream final : public std::ostream {
public:
	MemOStream(char* data, size_t cap) : std::ostream(nullptr), mBuf(data, cap) { init(&mBuf); }
	size_t written() const { return mBuf.written(); }
private:
	MemOutBuf mBuf;
};
}
