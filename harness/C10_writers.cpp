//@ PROPERTY C10
//@ LINK msgpack/msgpack_writers.cpp
// H10d: saving to a stream yields exactly the bytes of saving to memory - the MsgPack writer obligations of C06_writer.cpp
// (both writer classes run on the same symbolic value and are compared byte for byte) are claimed here for C10 as well.
#include "C06_writer.cpp"
//@ OBL {"name":"h10d_strlen","prop":"vp_h06c_strlen","in":8,"out":16,"unwind":12,"unwind_models":310,"unwind_fn":{"^verif_stream_copy$":310,"vp_h06c_strlen":310},"cap_s":900,"bounds":"string length 0..300, constant payload","desc":"CMsgPackStringWriter vs CMsgPackStreamWriter: WriteValue(string_view) same size and header at every length (thresholds 31/32, 255/256)"}
//@ OBL {"name":"h10d_i64","prop":"vp_h06a_i64","in":8,"out":16,"unwind":52,"bounds":"every int64_t","desc":"memory writer bytes == stream writer bytes (and == spec) for WriteValue(int64_t)"}
//@ OBL {"name":"h10d_u32","prop":"vp_h06a_u32","in":8,"out":16,"unwind":52,"bounds":"every uint32_t","desc":"memory == stream for WriteValue(uint32_t)"}
//@ OBL {"name":"h10d_double","prop":"vp_h06b_double","in":8,"out":16,"unwind":52,"bounds":"every 64-bit pattern","desc":"memory == stream for WriteValue(double)"}
//@ OBL {"name":"h10d_array","prop":"vp_h06c_array","in":8,"out":16,"unwind":52,"bounds":"every size_t count","desc":"memory == stream for BeginArray"}
//@ OBL {"name":"h10d_bin","prop":"vp_h06c_bin","in":8,"out":16,"unwind":52,"bounds":"every size_t count","desc":"memory == stream for BeginBinary"}
//@ OBL {"name":"h10d_str","prop":"vp_h06c_str","in":8,"out":16,"unwind":52,"bounds":"string length 0..40 with symbolic first/last byte","desc":"memory == stream for WriteValue(string_view) incl. payload"}
