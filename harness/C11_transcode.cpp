//@ PROPERTY C11
// H11a: transcoding of VALID Unicode text (k <= 2 arbitrary Unicode scalar values) between every ordered pair of code-unit
// widths through Utf::Transcode, the Utf16Le/Be / Utf32Le/Be encoder+decoder wrappers and Convert::Detail::To(string_view,string&).
// in[0] = k (number of scalars, <= 2), in[1] = policy (0 Skip / 1 ThrowError), in[2..3] = one pre-existing output unit (prefix),
// in[4..8) = c0, in[8..12) = c1.  Precondition (va): both are Unicode scalar values.
// Oracle: reference encoders of Unicode Table 3-5/3-6 (harness/ref/utf.h):
//   result Success, Iterator == end, InvalidSequencesCount == 0, output == prefix ++ ref_encode_target(c0,c1) in the requested byte
//   order, identical under Skip and ThrowError (policy is symbolic), and transcoding the produced text back restores the source units.
#include "vh.h"
#include "ref/utf.h"
#include <string>
#include "bitserializer/convert.h"
using namespace BitSerializer;
using namespace BitSerializer::Convert::Utf;

template <class U> static inline U bsw(U v) { if constexpr (sizeof(U) == 2) return (U)((v >> 8) | (v << 8)); else if constexpr (sizeof(U) == 4) return __builtin_bswap32(v); else return v; }
template <size_t W> struct W_;
template <> struct W_<1> { typedef unsigned char unit; typedef char cchar; static size_t enc(uint32_t c, unit* o) { return ref::enc_utf8(c, o); } };
template <> struct W_<2> { typedef uint16_t unit; typedef char16_t cchar; static size_t enc(uint32_t c, unit* o) { return ref::enc_utf16(c, o); } };
template <> struct W_<4> { typedef uint32_t unit; typedef char32_t cchar; static size_t enc(uint32_t c, unit* o) { o[0] = c; return 1; } };

struct In { size_t k; UtfEncodingErrorPolicy pol; uint16_t prefix; uint32_t c[2]; };
static inline In load(const unsigned char* in) {
	In r; r.k = in[0] <= 2 ? in[0] : 2; r.pol = (in[1] & 1) ? UtfEncodingErrorPolicy::ThrowError : UtfEncodingErrorPolicy::Skip;
	r.prefix = vh::rd<uint16_t>(in + 2); r.c[0] = vh::rd<uint32_t>(in + 4); r.c[1] = vh::rd<uint32_t>(in + 8); return r;
}
VH_EXPORT int va_scalars(const unsigned char* in) { In v = load(in); return in[0] <= 2 && ref::is_scalar(v.c[0]) && ref::is_scalar(v.c[1]); }
template <size_t W> static inline size_t encode_all(const In& v, typename W_<W>::unit* o) { size_t n = 0; for (size_t i = 0; i < v.k; i++) n += W_<W>::enc(v.c[i], o + n); return n; }

enum Variant { VTranscode, VEncLE, VEncBE, VDecLE, VDecBE, VConvertTo };
// SW/DW: source / destination width in bytes
template <size_t SW, size_t DW, Variant V> static inline int prop(const unsigned char* in, unsigned char* out) {
	typedef typename W_<SW>::unit SU; typedef typename W_<DW>::unit DU; typedef typename W_<SW>::cchar SC; typedef typename W_<DW>::cchar DC;
	In v = load(in);
	SU src[8]; size_t ns = encode_all<SW>(v, src);
	DU exp[8]; size_t ne = encode_all<DW>(v, exp);
	if (V == VDecLE) { /* memory image is little endian already */ }
	if (V == VDecBE) for (size_t i = 0; i < ns; i++) src[i] = bsw(src[i]);
	if (V == VEncBE) for (size_t i = 0; i < ne; i++) exp[i] = bsw(exp[i]);
	std::basic_string<DC> o; o.reserve(16);
	std::basic_string<SC> back; back.reserve(16);
	const DU pre = (DU)v.prefix;
	o.push_back((DC)pre);
	verif_nogrow(&o); verif_nogrow(&back);
	verif_symbolic_phase();
	const SC* b = reinterpret_cast<const SC*>(src);
	UtfEncodingErrorCode ec = UtfEncodingErrorCode::Success; size_t it = 0, cnt = 0; int rc = 0;
	auto fin = [&](auto r) { ec = r.ErrorCode; it = (size_t)(r.Iterator - b); cnt = r.InvalidSequencesCount; };
	if constexpr (V == VTranscode) fin(Transcode(b, b + ns, o, v.pol));
	else if constexpr (V == VEncLE) { if constexpr (DW == 2) fin(Utf16Le::Encode(b, b + ns, o, v.pol)); else fin(Utf32Le::Encode(b, b + ns, o, v.pol)); }
	else if constexpr (V == VEncBE) { if constexpr (DW == 2) fin(Utf16Be::Encode(b, b + ns, o, v.pol)); else fin(Utf32Be::Encode(b, b + ns, o, v.pol)); }
	else if constexpr (V == VDecLE) { if constexpr (SW == 2) fin(Utf16Le::Decode(b, b + ns, o, v.pol)); else fin(Utf32Le::Decode(b, b + ns, o, v.pol)); }
	else if constexpr (V == VDecBE) { if constexpr (SW == 2) fin(Utf16Be::Decode(b, b + ns, o, v.pol)); else fin(Utf32Be::Decode(b, b + ns, o, v.pol)); }
	else { rc = vh::outcome([&] { Convert::Detail::To(std::basic_string_view<SC>(b, ns), o); }); it = ns; }
	out[0] = (unsigned char)ec; out[1] = (unsigned char)it; out[2] = (unsigned char)cnt; out[3] = (unsigned char)o.size(); out[4] = (unsigned char)rc;
	if (rc != 0 || ec != UtfEncodingErrorCode::Success || it != ns || cnt != 0) return 0;
	if (o.size() != 1 + ne || (DU)o[0] != pre) return 0;
	for (size_t i = 0; i < ne; i++) if ((DU)o[1 + i] != exp[i]) return 0;
	// and back (native order only: the wrappers are exercised in the forward direction)
	if constexpr (V == VTranscode || V == VConvertTo) {
		const DC* ob = o.data() + 1;
		auto r2 = Transcode(ob, ob + ne, back, v.pol);
		if (r2.ErrorCode != UtfEncodingErrorCode::Success || r2.InvalidSequencesCount != 0 || r2.Iterator != ob + ne) return 0;
		if (back.size() != ns) return 0;
		for (size_t i = 0; i < ns; i++) if ((SU)back[i] != src[i]) return 0;
	}
	return 1;
}
#define DEF(name, SW, DW, V) VH_EXPORT int vp_##name(const unsigned char* in, unsigned char* out) { return prop<SW, DW, V>(in, out); }
DEF(h11a_tr_8_8, 1, 1, VTranscode)   DEF(h11a_tr_8_16, 1, 2, VTranscode)   DEF(h11a_tr_8_32, 1, 4, VTranscode)
DEF(h11a_tr_16_8, 2, 1, VTranscode)  DEF(h11a_tr_16_16, 2, 2, VTranscode)  DEF(h11a_tr_16_32, 2, 4, VTranscode)
DEF(h11a_tr_32_8, 4, 1, VTranscode)  DEF(h11a_tr_32_16, 4, 2, VTranscode)  DEF(h11a_tr_32_32, 4, 4, VTranscode)
DEF(h11a_encle_8_16, 1, 2, VEncLE)   DEF(h11a_encbe_8_16, 1, 2, VEncBE)    DEF(h11a_encbe_32_16, 4, 2, VEncBE)
DEF(h11a_encle_8_32, 1, 4, VEncLE)   DEF(h11a_encbe_8_32, 1, 4, VEncBE)    DEF(h11a_encbe_16_32, 2, 4, VEncBE)
DEF(h11a_decle_16_8, 2, 1, VDecLE)   DEF(h11a_decbe_16_8, 2, 1, VDecBE)    DEF(h11a_decbe_16_32, 2, 4, VDecBE)
DEF(h11a_decle_32_8, 4, 1, VDecLE)   DEF(h11a_decbe_32_8, 4, 1, VDecBE)    DEF(h11a_decbe_32_16, 4, 2, VDecBE)
DEF(h11a_to_8_16, 1, 2, VConvertTo)  DEF(h11a_to_16_8, 2, 1, VConvertTo)   DEF(h11a_to_32_8, 4, 1, VConvertTo)  DEF(h11a_to_8_32, 1, 4, VConvertTo)
DEF(h11a_to_16_32, 2, 4, VConvertTo) DEF(h11a_to_32_16, 4, 2, VConvertTo)
//@ OBL {"name": "h11a_tr_8_8", "family": "h11a", "prop": "vp_h11a_tr_8_8", "assume": "va_scalars", "in": 12, "out": 8, "unwind": 12, "unwind_fn": {"BitSerializer": 5}, "bounds": "k <= 2 arbitrary Unicode scalar values (all 1,112,064^2 ordered pairs), symbolic policy, symbolic one-unit prefix", "desc": "Utf::Transcode UTF-8 -> UTF-8: exact standard form, zero errors, iterator at end, prefix kept, round trip"}
//@ OBL {"name": "h11a_tr_8_16", "family": "h11a", "prop": "vp_h11a_tr_8_16", "assume": "va_scalars", "in": 12, "out": 8, "unwind": 12, "unwind_fn": {"BitSerializer": 5}, "bounds": "k <= 2 arbitrary Unicode scalar values (all 1,112,064^2 ordered pairs), symbolic policy, symbolic one-unit prefix", "desc": "Utf::Transcode UTF-8 -> UTF-16: exact standard form, zero errors, iterator at end, prefix kept, round trip"}
//@ OBL {"name": "h11a_tr_8_32", "family": "h11a", "prop": "vp_h11a_tr_8_32", "assume": "va_scalars", "in": 12, "out": 8, "unwind": 12, "unwind_fn": {"BitSerializer": 5}, "bounds": "k <= 2 arbitrary Unicode scalar values (all 1,112,064^2 ordered pairs), symbolic policy, symbolic one-unit prefix", "desc": "Utf::Transcode UTF-8 -> UTF-32: exact standard form, zero errors, iterator at end, prefix kept, round trip"}
//@ OBL {"name": "h11a_tr_16_8", "family": "h11a", "prop": "vp_h11a_tr_16_8", "assume": "va_scalars", "in": 12, "out": 8, "unwind": 12, "unwind_fn": {"BitSerializer": 5}, "bounds": "k <= 2 arbitrary Unicode scalar values (all 1,112,064^2 ordered pairs), symbolic policy, symbolic one-unit prefix", "desc": "Utf::Transcode UTF-16 -> UTF-8: exact standard form, zero errors, iterator at end, prefix kept, round trip"}
//@ OBL {"name": "h11a_tr_16_16", "family": "h11a", "prop": "vp_h11a_tr_16_16", "assume": "va_scalars", "in": 12, "out": 8, "unwind": 12, "unwind_fn": {"BitSerializer": 5}, "bounds": "k <= 2 arbitrary Unicode scalar values (all 1,112,064^2 ordered pairs), symbolic policy, symbolic one-unit prefix", "desc": "Utf::Transcode UTF-16 -> UTF-16: exact standard form, zero errors, iterator at end, prefix kept, round trip"}
//@ OBL {"name": "h11a_tr_16_32", "family": "h11a", "prop": "vp_h11a_tr_16_32", "assume": "va_scalars", "in": 12, "out": 8, "unwind": 12, "unwind_fn": {"BitSerializer": 5}, "bounds": "k <= 2 arbitrary Unicode scalar values (all 1,112,064^2 ordered pairs), symbolic policy, symbolic one-unit prefix", "desc": "Utf::Transcode UTF-16 -> UTF-32: exact standard form, zero errors, iterator at end, prefix kept, round trip"}
//@ OBL {"name": "h11a_tr_32_8", "family": "h11a", "prop": "vp_h11a_tr_32_8", "assume": "va_scalars", "in": 12, "out": 8, "unwind": 12, "unwind_fn": {"BitSerializer": 5}, "bounds": "k <= 2 arbitrary Unicode scalar values (all 1,112,064^2 ordered pairs), symbolic policy, symbolic one-unit prefix", "desc": "Utf::Transcode UTF-32 -> UTF-8: exact standard form, zero errors, iterator at end, prefix kept, round trip"}
//@ OBL {"name": "h11a_tr_32_16", "family": "h11a", "prop": "vp_h11a_tr_32_16", "assume": "va_scalars", "in": 12, "out": 8, "unwind": 12, "unwind_fn": {"BitSerializer": 5}, "bounds": "k <= 2 arbitrary Unicode scalar values (all 1,112,064^2 ordered pairs), symbolic policy, symbolic one-unit prefix", "desc": "Utf::Transcode UTF-32 -> UTF-16: exact standard form, zero errors, iterator at end, prefix kept, round trip"}
//@ OBL {"name": "h11a_tr_32_32", "family": "h11a", "prop": "vp_h11a_tr_32_32", "assume": "va_scalars", "in": 12, "out": 8, "unwind": 12, "unwind_fn": {"BitSerializer": 5}, "bounds": "k <= 2 arbitrary Unicode scalar values (all 1,112,064^2 ordered pairs), symbolic policy, symbolic one-unit prefix", "desc": "Utf::Transcode UTF-32 -> UTF-32: exact standard form, zero errors, iterator at end, prefix kept, round trip"}
//@ OBL {"name": "h11a_encle_8_16", "family": "h11a", "prop": "vp_h11a_encle_8_16", "assume": "va_scalars", "in": 12, "out": 8, "unwind": 12, "unwind_fn": {"BitSerializer": 5}, "bounds": "k <= 2 arbitrary Unicode scalar values (all 1,112,064^2 ordered pairs), symbolic policy, symbolic one-unit prefix", "desc": "Utf{16,32}Le::Encode UTF-8 -> UTF-16: exact standard form, zero errors, iterator at end, prefix kept, round trip"}
//@ OBL {"name": "h11a_encbe_8_16", "family": "h11a", "prop": "vp_h11a_encbe_8_16", "assume": "va_scalars", "in": 12, "out": 8, "unwind": 12, "unwind_fn": {"BitSerializer": 5}, "bounds": "k <= 2 arbitrary Unicode scalar values (all 1,112,064^2 ordered pairs), symbolic policy, symbolic one-unit prefix", "desc": "Utf{16,32}Be::Encode UTF-8 -> UTF-16: exact standard form, zero errors, iterator at end, prefix kept, round trip"}
//@ OBL {"name": "h11a_encbe_32_16", "family": "h11a", "prop": "vp_h11a_encbe_32_16", "assume": "va_scalars", "in": 12, "out": 8, "unwind": 12, "unwind_fn": {"BitSerializer": 5}, "bounds": "k <= 2 arbitrary Unicode scalar values (all 1,112,064^2 ordered pairs), symbolic policy, symbolic one-unit prefix", "desc": "Utf{16,32}Be::Encode UTF-32 -> UTF-16: exact standard form, zero errors, iterator at end, prefix kept, round trip"}
//@ OBL {"name": "h11a_encle_8_32", "family": "h11a", "prop": "vp_h11a_encle_8_32", "assume": "va_scalars", "in": 12, "out": 8, "unwind": 12, "unwind_fn": {"BitSerializer": 5}, "bounds": "k <= 2 arbitrary Unicode scalar values (all 1,112,064^2 ordered pairs), symbolic policy, symbolic one-unit prefix", "desc": "Utf{16,32}Le::Encode UTF-8 -> UTF-32: exact standard form, zero errors, iterator at end, prefix kept, round trip"}
//@ OBL {"name": "h11a_encbe_8_32", "family": "h11a", "prop": "vp_h11a_encbe_8_32", "assume": "va_scalars", "in": 12, "out": 8, "unwind": 12, "unwind_fn": {"BitSerializer": 5}, "bounds": "k <= 2 arbitrary Unicode scalar values (all 1,112,064^2 ordered pairs), symbolic policy, symbolic one-unit prefix", "desc": "Utf{16,32}Be::Encode UTF-8 -> UTF-32: exact standard form, zero errors, iterator at end, prefix kept, round trip"}
//@ OBL {"name": "h11a_encbe_16_32", "family": "h11a", "prop": "vp_h11a_encbe_16_32", "assume": "va_scalars", "in": 12, "out": 8, "unwind": 12, "unwind_fn": {"BitSerializer": 5}, "bounds": "k <= 2 arbitrary Unicode scalar values (all 1,112,064^2 ordered pairs), symbolic policy, symbolic one-unit prefix", "desc": "Utf{16,32}Be::Encode UTF-16 -> UTF-32: exact standard form, zero errors, iterator at end, prefix kept, round trip"}
//@ OBL {"name": "h11a_decle_16_8", "family": "h11a", "prop": "vp_h11a_decle_16_8", "assume": "va_scalars", "in": 12, "out": 8, "unwind": 12, "unwind_fn": {"BitSerializer": 5}, "bounds": "k <= 2 arbitrary Unicode scalar values (all 1,112,064^2 ordered pairs), symbolic policy, symbolic one-unit prefix", "desc": "Utf{16,32}Le::Decode UTF-16 -> UTF-8: exact standard form, zero errors, iterator at end, prefix kept, round trip"}
//@ OBL {"name": "h11a_decbe_16_8", "family": "h11a", "prop": "vp_h11a_decbe_16_8", "assume": "va_scalars", "in": 12, "out": 8, "unwind": 12, "unwind_fn": {"BitSerializer": 5}, "bounds": "k <= 2 arbitrary Unicode scalar values (all 1,112,064^2 ordered pairs), symbolic policy, symbolic one-unit prefix", "desc": "Utf{16,32}Be::Decode UTF-16 -> UTF-8: exact standard form, zero errors, iterator at end, prefix kept, round trip"}
//@ OBL {"name": "h11a_decbe_16_32", "family": "h11a", "prop": "vp_h11a_decbe_16_32", "assume": "va_scalars", "in": 12, "out": 8, "unwind": 12, "unwind_fn": {"BitSerializer": 5}, "bounds": "k <= 2 arbitrary Unicode scalar values (all 1,112,064^2 ordered pairs), symbolic policy, symbolic one-unit prefix", "desc": "Utf{16,32}Be::Decode UTF-16 -> UTF-32: exact standard form, zero errors, iterator at end, prefix kept, round trip"}
//@ OBL {"name": "h11a_decle_32_8", "family": "h11a", "prop": "vp_h11a_decle_32_8", "assume": "va_scalars", "in": 12, "out": 8, "unwind": 12, "unwind_fn": {"BitSerializer": 5}, "bounds": "k <= 2 arbitrary Unicode scalar values (all 1,112,064^2 ordered pairs), symbolic policy, symbolic one-unit prefix", "desc": "Utf{16,32}Le::Decode UTF-32 -> UTF-8: exact standard form, zero errors, iterator at end, prefix kept, round trip"}
//@ OBL {"name": "h11a_decbe_32_8", "family": "h11a", "prop": "vp_h11a_decbe_32_8", "assume": "va_scalars", "in": 12, "out": 8, "unwind": 12, "unwind_fn": {"BitSerializer": 5}, "bounds": "k <= 2 arbitrary Unicode scalar values (all 1,112,064^2 ordered pairs), symbolic policy, symbolic one-unit prefix", "desc": "Utf{16,32}Be::Decode UTF-32 -> UTF-8: exact standard form, zero errors, iterator at end, prefix kept, round trip"}
//@ OBL {"name": "h11a_decbe_32_16", "family": "h11a", "prop": "vp_h11a_decbe_32_16", "assume": "va_scalars", "in": 12, "out": 8, "unwind": 12, "unwind_fn": {"BitSerializer": 5}, "bounds": "k <= 2 arbitrary Unicode scalar values (all 1,112,064^2 ordered pairs), symbolic policy, symbolic one-unit prefix", "desc": "Utf{16,32}Be::Decode UTF-32 -> UTF-16: exact standard form, zero errors, iterator at end, prefix kept, round trip"}
//@ OBL {"name": "h11a_to_8_16", "family": "h11a", "prop": "vp_h11a_to_8_16", "assume": "va_scalars", "in": 12, "out": 8, "unwind": 12, "unwind_fn": {"BitSerializer": 5}, "bounds": "k <= 2 arbitrary Unicode scalar values (all 1,112,064^2 ordered pairs), symbolic policy, symbolic one-unit prefix", "desc": "Convert::Detail::To(string_view,string&) UTF-8 -> UTF-16: exact standard form, zero errors, iterator at end, prefix kept, round trip"}
//@ OBL {"name": "h11a_to_16_8", "family": "h11a", "prop": "vp_h11a_to_16_8", "assume": "va_scalars", "in": 12, "out": 8, "unwind": 12, "unwind_fn": {"BitSerializer": 5}, "bounds": "k <= 2 arbitrary Unicode scalar values (all 1,112,064^2 ordered pairs), symbolic policy, symbolic one-unit prefix", "desc": "Convert::Detail::To(string_view,string&) UTF-16 -> UTF-8: exact standard form, zero errors, iterator at end, prefix kept, round trip"}
//@ OBL {"name": "h11a_to_32_8", "family": "h11a", "prop": "vp_h11a_to_32_8", "assume": "va_scalars", "in": 12, "out": 8, "unwind": 12, "unwind_fn": {"BitSerializer": 5}, "bounds": "k <= 2 arbitrary Unicode scalar values (all 1,112,064^2 ordered pairs), symbolic policy, symbolic one-unit prefix", "desc": "Convert::Detail::To(string_view,string&) UTF-32 -> UTF-8: exact standard form, zero errors, iterator at end, prefix kept, round trip"}
//@ OBL {"name": "h11a_to_8_32", "family": "h11a", "prop": "vp_h11a_to_8_32", "assume": "va_scalars", "in": 12, "out": 8, "unwind": 12, "unwind_fn": {"BitSerializer": 5}, "bounds": "k <= 2 arbitrary Unicode scalar values (all 1,112,064^2 ordered pairs), symbolic policy, symbolic one-unit prefix", "desc": "Convert::Detail::To(string_view,string&) UTF-8 -> UTF-32: exact standard form, zero errors, iterator at end, prefix kept, round trip"}
//@ OBL {"name": "h11a_to_16_32", "family": "h11a", "prop": "vp_h11a_to_16_32", "assume": "va_scalars", "in": 12, "out": 8, "unwind": 12, "unwind_fn": {"BitSerializer": 5}, "bounds": "k <= 2 arbitrary Unicode scalar values (all 1,112,064^2 ordered pairs), symbolic policy, symbolic one-unit prefix", "desc": "Convert::Detail::To(string_view,string&) UTF-16 -> UTF-32: exact standard form, zero errors, iterator at end, prefix kept, round trip"}
//@ OBL {"name": "h11a_to_32_16", "family": "h11a", "prop": "vp_h11a_to_32_16", "assume": "va_scalars", "in": 12, "out": 8, "unwind": 12, "unwind_fn": {"BitSerializer": 5}, "bounds": "k <= 2 arbitrary Unicode scalar values (all 1,112,064^2 ordered pairs), symbolic policy, symbolic one-unit prefix", "desc": "Convert::Detail::To(string_view,string&) UTF-32 -> UTF-16: exact standard form, zero errors, iterator at end, prefix kept, round trip"}
//@ VEC * 0200410041000000ac200000
//@ VEC * 020141000001f60100ffff1000
//@ VEC * 01004100ffff0000

