//@ PROPERTY C01
//@ LINK msgpack/msgpack_readers.cpp msgpack/msgpack_writers.cpp common/binary_stream_reader.cpp
//@ MODELDEF VERIF_STRLEN_ZERO
//@ OVERRIDE _ZN13BitSerializer7Convert6Detail2ToImcSaIcELi0EEEvRKT_RNSt7__cxx1112basic_stringIT0_St11char_traitsIS9_ET1_EE
// C01 (MsgPack codec level): save then load reproduces the value.  H01a: CMsgPackStringWriter::WriteValue(T) followed by
// CMsgPackStringReader::ReadValue(T&) on the produced bytes returns true, the identical value (bit-exact for float/double,
// NaN payloads included), and consumes exactly the bytes written - for EVERY value of each scalar type; strings <= 4 bytes
// and timestamps likewise.  The load-save-load fixed point follows for scalars: write(read(b)) re-read equals the first read.
#include "mp_common.h"
using namespace mpc;
template <class T> static inline int prop_rt(const unsigned char* in, unsigned char* out) {
	T v = vh::rd<T>(in);
	std::string s; s.reserve(32); verif_nogrow(&s);
	SerializationOptions opt = options(0);
	CMsgPackStringWriter w(s);
	verif_symbolic_phase();
	int rc = outcome([&] { w.WriteValue(v); return true; });
	T back{}; std::memset(&back, 0x5a, sizeof(T));
	CMsgPackStringReader r(std::string_view(s.data(), s.size()), opt);
	int rc2 = outcome([&] { return r.ReadValue(back); });
	out[0] = (unsigned char)rc; out[1] = (unsigned char)rc2; out[2] = (unsigned char)s.size(); out[3] = (unsigned char)r.GetPosition(); vh::wr(out + 4, back);
	return rc == vh::OK && rc2 == vh::OK && std::memcmp(&back, &v, sizeof(T)) == 0 && r.GetPosition() == s.size() && r.IsEnd();
}
VH_EXPORT int vp_h01a_str(const unsigned char* in, unsigned char* out) {
	size_t n = in[0] % 5; const char* p = reinterpret_cast<const char*>(in + 1);
	std::string s; s.reserve(32); verif_nogrow(&s);
	SerializationOptions opt = options(0);
	CMsgPackStringWriter w(s);
	verif_symbolic_phase();
	int rc = outcome([&] { w.WriteValue(std::string_view(p, n)); return true; });
	std::string_view back("prev", 4);
	CMsgPackStringReader r(std::string_view(s.data(), s.size()), opt);
	int rc2 = outcome([&] { return r.ReadValue(back); });
	out[0] = (unsigned char)rc; out[1] = (unsigned char)rc2; out[2] = (unsigned char)back.size();
	if (!(rc == vh::OK && rc2 == vh::OK && back.size() == n && r.IsEnd())) return 0;
	for (size_t i = 0; i < 4; i++) if (i < n && back[i] != p[i]) return 0;
	return 1;
}
VH_EXPORT int va_h01a_ts(const unsigned char* in) { int32_t ns = vh::rd<int32_t>(in + 8); return ns >= 0 && ns <= 999999999; }
VH_EXPORT int vp_h01a_ts(const unsigned char* in, unsigned char* out) {
	CBinTimestamp v(vh::rd<int64_t>(in), vh::rd<int32_t>(in + 8));
	std::string s; s.reserve(32); verif_nogrow(&s);
	SerializationOptions opt = options(0);
	CMsgPackStringWriter w(s);
	verif_symbolic_phase();
	int rc = outcome([&] { w.WriteValue(v); return true; });
	CBinTimestamp back(1, 1);
	CMsgPackStringReader r(std::string_view(s.data(), s.size()), opt);
	int rc2 = outcome([&] { return r.ReadValue(back); });
	out[0] = (unsigned char)rc; out[1] = (unsigned char)rc2; vh::wr(out + 2, back.Seconds);
	return rc == vh::OK && rc2 == vh::OK && back == v && r.IsEnd();
}
#define D(name, T) VH_EXPORT int vp_h01a_##name(const unsigned char* in, unsigned char* out) { return prop_rt<T>(in, out); }
D(bool, bool) D(u8, uint8_t) D(u16, uint16_t) D(u32, uint32_t) D(u64, uint64_t) D(i8, int8_t) D(i16, int16_t) D(i32, int32_t) D(i64, int64_t) D(f32, float) D(f64, double)
//@ OBL {"name": "h01a_bool", "family": "h01a", "prop": "vp_h01a_bool", "in": 16, "out": 16, "unwind": 12, "fs": 32, "unwind_fn": {"SkipValueImpl": 1}, "recursion": {"SkipValueImpl": 0}, "cap_s": 900, "bounds": "every value of bool", "desc": "MsgPack write -> read identity for bool (bit-exact), reader consumes exactly the bytes written"}
//@ OBL {"name": "h01a_u8", "family": "h01a", "prop": "vp_h01a_u8", "in": 16, "out": 16, "unwind": 12, "fs": 32, "unwind_fn": {"SkipValueImpl": 1}, "recursion": {"SkipValueImpl": 0}, "cap_s": 900, "bounds": "every value of uint8_t", "desc": "MsgPack write -> read identity for uint8_t (bit-exact), reader consumes exactly the bytes written"}
//@ OBL {"name": "h01a_u16", "family": "h01a", "prop": "vp_h01a_u16", "in": 16, "out": 16, "unwind": 12, "fs": 32, "unwind_fn": {"SkipValueImpl": 1}, "recursion": {"SkipValueImpl": 0}, "cap_s": 900, "bounds": "every value of uint16_t", "desc": "MsgPack write -> read identity for uint16_t (bit-exact), reader consumes exactly the bytes written"}
//@ OBL {"name": "h01a_u32", "family": "h01a", "prop": "vp_h01a_u32", "in": 16, "out": 16, "unwind": 12, "fs": 32, "unwind_fn": {"SkipValueImpl": 1}, "recursion": {"SkipValueImpl": 0}, "cap_s": 900, "bounds": "every value of uint32_t", "desc": "MsgPack write -> read identity for uint32_t (bit-exact), reader consumes exactly the bytes written"}
//@ OBL {"name": "h01a_u64", "family": "h01a", "prop": "vp_h01a_u64", "in": 16, "out": 16, "unwind": 12, "fs": 32, "unwind_fn": {"SkipValueImpl": 1}, "recursion": {"SkipValueImpl": 0}, "cap_s": 900, "bounds": "every value of uint64_t", "desc": "MsgPack write -> read identity for uint64_t (bit-exact), reader consumes exactly the bytes written"}
//@ OBL {"name": "h01a_i8", "family": "h01a", "prop": "vp_h01a_i8", "in": 16, "out": 16, "unwind": 12, "fs": 32, "unwind_fn": {"SkipValueImpl": 1}, "recursion": {"SkipValueImpl": 0}, "cap_s": 900, "bounds": "every value of int8_t", "desc": "MsgPack write -> read identity for int8_t (bit-exact), reader consumes exactly the bytes written"}
//@ OBL {"name": "h01a_i16", "family": "h01a", "prop": "vp_h01a_i16", "in": 16, "out": 16, "unwind": 12, "fs": 32, "unwind_fn": {"SkipValueImpl": 1}, "recursion": {"SkipValueImpl": 0}, "cap_s": 900, "bounds": "every value of int16_t", "desc": "MsgPack write -> read identity for int16_t (bit-exact), reader consumes exactly the bytes written"}
//@ OBL {"name": "h01a_i32", "family": "h01a", "prop": "vp_h01a_i32", "in": 16, "out": 16, "unwind": 12, "fs": 32, "unwind_fn": {"SkipValueImpl": 1}, "recursion": {"SkipValueImpl": 0}, "cap_s": 900, "bounds": "every value of int32_t", "desc": "MsgPack write -> read identity for int32_t (bit-exact), reader consumes exactly the bytes written"}
//@ OBL {"name": "h01a_i64", "family": "h01a", "prop": "vp_h01a_i64", "in": 16, "out": 16, "unwind": 12, "fs": 32, "unwind_fn": {"SkipValueImpl": 1}, "recursion": {"SkipValueImpl": 0}, "cap_s": 900, "bounds": "every value of int64_t", "desc": "MsgPack write -> read identity for int64_t (bit-exact), reader consumes exactly the bytes written"}
//@ OBL {"name": "h01a_f32", "family": "h01a", "prop": "vp_h01a_f32", "in": 16, "out": 16, "unwind": 12, "fs": 32, "unwind_fn": {"SkipValueImpl": 1}, "recursion": {"SkipValueImpl": 0}, "cap_s": 900, "bounds": "every value of float", "desc": "MsgPack write -> read identity for float (bit-exact), reader consumes exactly the bytes written"}
//@ OBL {"name": "h01a_f64", "family": "h01a", "prop": "vp_h01a_f64", "in": 16, "out": 16, "unwind": 12, "fs": 32, "unwind_fn": {"SkipValueImpl": 1}, "recursion": {"SkipValueImpl": 0}, "cap_s": 900, "bounds": "every value of double", "desc": "MsgPack write -> read identity for double (bit-exact), reader consumes exactly the bytes written"}
//@ OBL {"name": "h01a_str", "family": "h01a", "prop": "vp_h01a_str", "in": 16, "out": 16, "unwind": 12, "fs": 32, "unwind_fn": {"SkipValueImpl": 1}, "recursion": {"SkipValueImpl": 0}, "cap_s": 900, "bounds": "every string of length <= 4", "desc": "MsgPack write -> read identity for strings"}
//@ OBL {"name": "h01a_ts", "family": "h01a", "prop": "vp_h01a_ts", "assume": "va_h01a_ts", "in": 16, "out": 16, "unwind": 12, "fs": 32, "unwind_fn": {"SkipValueImpl": 1}, "recursion": {"SkipValueImpl": 0}, "cap_s": 900, "bounds": "every int64 seconds, nanoseconds 0..999999999", "desc": "MsgPack write -> read identity for timestamps (all three layouts; F5 cancels out between writer and reader)"}
//@ VEC * 0000000000000000000000000000
//@ VEC * ffffffffffffffff00000000
//@ VEC * 0080ffffffffffff00ca9a3b
//@ VEC * 0461626364000000
