//@ PROPERTY C20
//@ LINK msgpack/msgpack_archive.cpp msgpack/msgpack_readers.cpp msgpack/msgpack_writers.cpp common/binary_stream_reader.cpp
//@ MODELDEF VERIF_STRLEN_ZERO
//@ STUB _ZSt8to_charsPcS_d _ZSt8to_charsPcS_f
//@ OVERRIDE _ZN13BitSerializer7Convert6Detail2ToImcSaIcELi0EEEvRKT_RNSt7__cxx1112basic_stringIT0_St11char_traitsIS9_ET1_EE
// C20, root scopes of the MsgPack archive (src/msgpack/msgpack_archive.cpp): they own the reader / writer through a raw pointer
// allocated in the constructor and deleted in the destructor.
//  h20d_root_load  MsgPackReadRootScope over ARBITRARY bytes (length 0..3, incl. the empty document): constructing the scope, loading
//                  one value through the IMsgPackReader interface and destroying the scope yields a documented outcome (empty
//                  input: ParsingException), never std::terminate, and every allocation is released (CBMC memory-leak check).
//  h20d_root_save  MsgPackWriteRootScope over a string: one value saved, scope destroyed, nothing leaked, bytes == direct writer.
#include "mp_scopes.h"
using namespace mps;
using BitSerializer::MsgPack::Detail::MsgPackReadRootScope;
using BitSerializer::MsgPack::Detail::MsgPackWriteRootScope;
static inline bool documented(int rc) { return rc == vh::OK || rc == vh::NOT_LOADED || rc == RC_PARSING || rc == RC_MISMATCH || rc == RC_OVERFLOW; }
static inline bool is_container(unsigned b) { return (b >= 0x80 && b <= 0x9f) || (b >= 0xdc && b <= 0xdf); }
VH_EXPORT int va_h20d(const unsigned char* in) { return !((in[0] % 4) && is_container(in[2])); }
template <class T> static inline int prop_root_load(const unsigned char* in, unsigned char* out) {
	size_t n = in[0] % 4;
	SerializationOptions opt = options(in[1] & 3);
	SerializationContext ctx(opt);
	T v{}; std::memset(&v, 0x11, sizeof(T));
	verif_symbolic_phase();
	int rc = outcome([&] { MsgPackReadRootScope root(std::string_view(reinterpret_cast<const char*>(in + 2), n), ctx); return root.SerializeValue(v); });
	out[0] = (unsigned char)rc;
	if (n == 0) return rc == RC_PARSING;
	return documented(rc);
}
VH_EXPORT int vp_h20d_root_load_i64(const unsigned char* in, unsigned char* out) { return prop_root_load<int64_t>(in, out); }
VH_EXPORT int vp_h20d_root_load_f64(const unsigned char* in, unsigned char* out) { return prop_root_load<double>(in, out); }
VH_EXPORT int vp_h20d_root_save(const unsigned char* in, unsigned char* out) {
	int64_t v = vh::rd<int64_t>(in);
	std::string a, b; a.reserve(32); b.reserve(32); verif_nogrow(&a); verif_nogrow(&b);
	SerializationOptions opt = options(0);
	SerializationContext ctx(opt);
	verif_symbolic_phase();
	int rc = outcome([&] { MsgPackWriteRootScope root(a, ctx); return root.SerializeValue(v); });
	int rc2 = outcome([&] { CMsgPackStringWriter w(b); w.WriteValue(v); return true; });
	out[0] = (unsigned char)rc; out[1] = (unsigned char)a.size();
	return rc == vh::OK && rc2 == vh::OK && a.size() == b.size() && a.size() <= 9 && std::memcmp(a.data(), b.data(), a.size()) == 0;
}
//@ OBL {"name": "h20d_root_load_i64", "prop": "vp_h20d_root_load_i64", "assume": "va_h20d", "in": 8, "out": 8, "unwind": 12, "fs": 32, "cbmc": ["--memory-leak-check"], "unwind_fn": {"SkipValueImpl": 1}, "recursion": {"SkipValueImpl": 0, "RootScopeD[012]Ev": 0}, "cap_s": 900, "bounds": "every byte string of length 0..3 (first byte not an array/map header), both policies", "desc": "MsgPackReadRootScope(string_view): construct, load one int64 through IMsgPackReader, destroy - documented outcome (empty document: ParsingException), no terminate, no leak"}
//@ OBL {"name": "h20d_root_load_f64", "prop": "vp_h20d_root_load_f64", "assume": "va_h20d", "in": 8, "out": 8, "unwind": 12, "fs": 32, "cbmc": ["--memory-leak-check"], "unwind_fn": {"SkipValueImpl": 1}, "recursion": {"SkipValueImpl": 0, "RootScopeD[012]Ev": 0}, "cap_s": 900, "bounds": "every byte string of length 0..3 (first byte not an array/map header), both policies", "desc": "same for a double target"}
//@ OBL {"name": "h20d_root_save", "prop": "vp_h20d_root_save", "in": 8, "out": 8, "unwind": 12, "fs": 32, "cbmc": ["--memory-leak-check"], "cap_s": 900, "bounds": "every int64 value", "desc": "MsgPackWriteRootScope(string&): save one value, destroy - bytes equal the direct writer's, no leak"}
//@ VEC * 0000000000000000
//@ VEC * 0100050000000000
//@ VEC * 0300cd0102000000
//@ VEC * 0203cb0000000000
