//@ PROPERTY C02
// C02, exact-extent twins of the UTF decoder obligations (C12_illformed.cpp compiled with VH_EXACT_EXTENT): the source code units
// live in a heap block of EXACTLY n units, so that a decoder that looks at a unit past the end of its input range (a missing
// end test after a lead byte / high surrogate) is a memory-safety failure for CBMC's pointer checks and for ASan in the replay.
#define VH_EXACT_EXTENT 1
#include "C12_illformed.cpp"
//@ OBL {"name": "h02x_8to16_throw", "prop": "vp_h12a_8to16_throw", "assume": "va_h12a_8to16", "in": 5, "out": 8, "unwind": 18, "bounds": "every UTF-8 byte string of length <= 4 in a heap block of exactly that size", "desc": "[exact-extent] Utf8::Decode -> UTF-16, ThrowError: no read outside the input range", "unwind_fn": {"BitSerializer": 6, "ref": 6}}
//@ OBL {"name": "h02x_8to16_skip", "prop": "vp_h12a_8to16_skip", "assume": "va_h12a_8to16", "in": 5, "out": 8, "unwind": 18, "bounds": "every UTF-8 byte string of length <= 4 in a heap block of exactly that size", "desc": "[exact-extent] Utf8::Decode -> UTF-16, Skip", "unwind_fn": {"BitSerializer": 6, "ref": 6}}
//@ OBL {"name": "h02x_8to32_skip", "prop": "vp_h12a_8to32_skip", "assume": "va_h12a_8to32", "in": 5, "out": 8, "unwind": 14, "bounds": "every UTF-8 byte string of length <= 4 in a heap block of exactly that size", "desc": "[exact-extent] Utf8::Decode -> UTF-32, Skip", "unwind_fn": {"BitSerializer": 6, "ref": 6}}
//@ OBL {"name": "h02x_16to8_throw", "prop": "vp_h12b_16to8_throw", "assume": "va_h12b_16to8", "in": 7, "out": 8, "unwind": 22, "bounds": "every sequence of <= 3 UTF-16 units in a heap block of exactly that size", "desc": "[exact-extent] Utf16::Decode -> UTF-8, ThrowError", "unwind_fn": {"BitSerializer": 5, "ref": 5}}
//@ OBL {"name": "h02x_16to8_skip", "prop": "vp_h12b_16to8_skip", "assume": "va_h12b_16to8", "in": 7, "out": 8, "unwind": 22, "bounds": "every sequence of <= 3 UTF-16 units in a heap block of exactly that size", "desc": "[exact-extent] Utf16::Decode -> UTF-8, Skip", "unwind_fn": {"BitSerializer": 5, "ref": 5}}
//@ VEC * 03e282ac00
//@ VEC * 02e2820000
//@ VEC * 01f0000000
//@ VEC h02x_16to8_throw 023dd800de0000
//@ VEC h02x_16to8_skip 013dd800000000
