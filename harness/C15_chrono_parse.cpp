//@ PROPERTY C15
// C15: ISO-8601 parsing yields the denoted value or throws; never wraps (convert_chrono.h).
//  h15a  SafeDurationCast<To>(From): exact (r*ToPeriod == count*FromPeriod) or out_of_range, for the period/representation
//        pairs the parsers and the timestamp code instantiate (incl. the unsigned 64-bit magnitudes of the duration parser)
//  h15b  SafeAddDuration (time_point and duration overloads): exact sum or out_of_range
//  h15c  ParseSecondFractions: d digits (1..9) -> value * 10^(9-d) ns; 10+ digits / non-digits -> failure
//  h15d  date-time grammar on a free 20-character buffer of shape dddd-dd-ddTdd:dd:ddZ (every character arbitrary):
//        accepted iff it is that shape with valid field ranges (calendar-valid day), value = reference instant
//  h15f  duration grammar on <= 8 free characters: value per reference parser or invalid_argument / out_of_range
#include "vh.h"
#include "ref/calendar.h"
#include "chrono_common.h"
#include <string>
#include <chrono>
#include <limits>
#include "bitserializer/convert.h"
using namespace BitSerializer;
typedef __int128 i128;

// ---- h15a
template <class From, class To> static inline int prop_cast(const unsigned char* in, unsigned char* out) {
	typedef typename From::rep FR; typedef typename To::rep TR;
	FR cnt = vh::rd<FR>(in);
	To r(TR(77));
	int rc = vh::outcome([&] { r = Convert::Detail::SafeDurationCast<To>(From(cnt)); });
	out[0] = (unsigned char)rc; vh::wr(out + 1, (int64_t)r.count());
	// exact value: cnt * (Fnum/Fden) / (Tnum/Tden) = cnt * Fnum*Tden / (Fden*Tnum)
	typedef std::ratio_divide<typename From::period, typename To::period> R;
	constexpr i128 num = R::num, den = R::den;
	i128 scaled = (i128)cnt * num;
	bool exact = scaled % den == 0;
	i128 v = scaled / den;
	bool fits = v >= (i128)std::numeric_limits<TR>::lowest() && v <= (i128)std::numeric_limits<TR>::max();
	if (exact && fits) return rc == vh::OK && (i128)r.count() == v;
	return rc == vh::OUT_OF_RANGE && r.count() == TR(77);
}
// ---- h15b
template <class D, class S> static inline int prop_add_tp(const unsigned char* in, unsigned char* out) {
	int64_t a = vh::rd<int64_t>(in); typename S::rep b = vh::rd<typename S::rep>(in + 8);
	chr::time_point<chr::system_clock, D> tp{D(a)};
	int rc = vh::outcome([&] { Convert::Detail::SafeAddDuration(tp, S(b)); });
	int64_t got = tp.time_since_epoch().count();
	out[0] = (unsigned char)rc; vh::wr(out + 1, got);
	typedef std::ratio_divide<typename S::period, typename D::period> R;
	if constexpr (R::den == 1) {
		// multiplication direction, 64-bit reasoning only: the addend fits iff |b| <= INT64_MAX / num (num does not divide 2^63)
		constexpr int64_t num = R::num, lim = INT64_MAX / num;
		bool addend_fits = num == 1 || ((int64_t)b <= lim && (int64_t)b >= -lim);
		int64_t sum = 0;
		bool sum_fits = addend_fits && !__builtin_add_overflow(a, (int64_t)b * num, &sum);
		if (sum_fits) return rc == vh::OK && got == sum;
		// not representable - or representable although the addend alone is not (conservative rejection tolerated)
		return rc == vh::OUT_OF_RANGE && got == a;
	} else {
		i128 scaled = (i128)b * R::num;
		bool exact = scaled % R::den == 0;
		i128 sum = (i128)a + scaled / R::den;
		if (exact && sum >= (i128)INT64_MIN && sum <= (i128)INT64_MAX) return rc == vh::OK && (i128)got == sum;
		return rc == vh::OUT_OF_RANGE && got == a;
	}
}
template <class D, class S> static inline int prop_add_dur(const unsigned char* in, unsigned char* out) {
	typedef typename D::rep DR;
	DR a = vh::rd<DR>(in); typename S::rep b = vh::rd<typename S::rep>(in + 8);
	D d(a);
	int rc = vh::outcome([&] { Convert::Detail::SafeAddDuration(d, S(b)); });
	out[0] = (unsigned char)rc; vh::wr(out + 1, (int64_t)d.count());
	typedef std::ratio_divide<typename S::period, typename D::period> R;
	if constexpr (R::den == 1 && sizeof(DR) == 8) {
		constexpr int64_t num = R::num, lim = INT64_MAX / num;
		bool addend_fits = num == 1 || ((int64_t)b <= lim && (int64_t)b >= -lim);
		int64_t sum = 0;
		bool sum_fits = addend_fits && !__builtin_add_overflow((int64_t)a, (int64_t)b * num, &sum);
		if (sum_fits) return rc == vh::OK && (int64_t)d.count() == sum;
		return rc == vh::OUT_OF_RANGE && d.count() == a;
	} else {
		i128 scaled = (i128)b * R::num;
		bool exact = scaled % R::den == 0;
		i128 sum = (i128)a + scaled / R::den;
		i128 addend = scaled / R::den;
		bool addend_fits = addend >= (i128)std::numeric_limits<DR>::lowest() && addend <= (i128)std::numeric_limits<DR>::max();
		if (exact && sum >= (i128)std::numeric_limits<DR>::lowest() && sum <= (i128)std::numeric_limits<DR>::max()) {
			if (rc == vh::OK) return (i128)d.count() == sum;
			return !addend_fits && rc == vh::OUT_OF_RANGE && d.count() == a;
		}
		return rc == vh::OUT_OF_RANGE && d.count() == a;
	}
}
// ---- h15c
VH_EXPORT int vp_h15c_frac(const unsigned char* in, unsigned char* out) {
	size_t n = in[0] <= 11 ? in[0] : 11; const char* p = reinterpret_cast<const char*>(in + 1);
	chr::nanoseconds ns(-5);
	const char* r = Convert::Detail::ParseSecondFractions(p, p + n, ns);
	out[0] = r ? (unsigned char)(r - p) : 0xff; vh::wr(out + 1, (int64_t)ns.count());
	size_t d = 0; while (d < n && p[d] >= '0' && p[d] <= '9') d++;
	if (d > 9) { bool allzero = true; for (size_t i = 0; i < d; i++) allzero = allzero && p[i] == '0'; if (allzero) return r == nullptr || (r == p + d && ns.count() == 0); }   // 00000000000: value is exact either way
	if (d == 0 || d > 9) return r == nullptr;                 // no digits, or more than nanosecond precision
	int64_t v = 0; for (size_t i = 0; i < 9; i++) v = v * 10 + (i < d ? p[i] - '0' : 0);
	return r == p + d && ns.count() == v;
}
// ---- h15d: in[0..20) = the 20 characters
template <class D> static inline int prop_grammar(const unsigned char* in, unsigned char* out) {
	const char* t = reinterpret_cast<const char*>(in);
	chr::time_point<chr::system_clock, D> tp{D(4242)};
	int rc = vh::outcome([&] { Convert::Detail::To(std::string_view(t, 20), tp); });
	int64_t got = tp.time_since_epoch().count();
	out[0] = (unsigned char)rc; vh::wr(out + 1, got);
	auto dg = [&](int i) { return t[i] >= '0' && t[i] <= '9'; };
	auto v2 = [&](int i) { return (t[i] - '0') * 10 + (t[i + 1] - '0'); };
	bool shape = dg(0) && dg(1) && dg(2) && dg(3) && t[4] == '-' && dg(5) && dg(6) && t[7] == '-' && dg(8) && dg(9) && t[10] == 'T'
		&& dg(11) && dg(12) && t[13] == ':' && dg(14) && dg(15) && t[16] == ':' && dg(17) && dg(18) && t[19] == 'Z';
	if (!shape) return 2;      // other shapes (signs, shorter fields, fractions...) are outside this obligation
	int64_t y = (t[0] - '0') * 1000 + (t[1] - '0') * 100 + (t[2] - '0') * 10 + (t[3] - '0');
	int mo = v2(5), d = v2(8), h = v2(11), mi = v2(14), s = v2(17);
	bool valid = cal::valid(y, mo, d) && h <= 23 && mi <= 59 && s <= 59;
	if (!valid) return rc == vh::INVALID_ARGUMENT && got == 4242;
	i128 secs = (i128)cal::days_from_civil(y, mo, d) * 86400 + h * 3600 + mi * 60 + s;
	i128 scaled = secs * D::period::den;
	if (scaled % D::period::num != 0) return rc == vh::OUT_OF_RANGE && got == 4242;
	i128 v = scaled / D::period::num;
	if (v > (i128)INT64_MAX || v < (i128)INT64_MIN) return rc == vh::OUT_OF_RANGE && got == 4242;
	return rc == vh::OK && (i128)got == v;
}
VH_EXPORT int vp_h15d_s(const unsigned char* in, unsigned char* out) { return prop_grammar<chr::seconds>(in, out) != 0; }
// ---- h15f: duration grammar, n <= 8 free characters, int64 seconds target
// reference parser for [+-]P[nW][nD][T[nH][nM][n[.,f]S]] (documented rules); returns 0 ok, 1 invalid_argument, 2 out_of_range
static inline int ref_duration(const char* p, size_t n, i128* outv) {
	size_t i = 0; bool neg = false;
	if (n < 3) return 1;
	if (p[i] == '-') { neg = true; i++; } else if (p[i] == '+') i++;
	if (p[i] != 'P') return 1;
	i++;
	bool date = true; i128 total = 0; bool any = false;
	while (i < n) {
		if (date && p[i] == 'T') { date = false; i++; if (i >= n) return 1; }
		if (!(p[i] >= '0' && p[i] <= '9')) return 1;
		i128 v = 0; while (i < n && p[i] >= '0' && p[i] <= '9') { v = v * 10 + (p[i] - '0'); i++; }
		if (i >= n) return 1;                       // number without designator
		char c = p[i++];
		i128 frac_ns = 0; bool has_frac = false;
		if (c == '.' || c == ',') {
			size_t d = 0; i128 f = 0;
			while (i < n && p[i] >= '0' && p[i] <= '9') { if (d < 9) f = f * 10 + (p[i] - '0'); d++; i++; }
			if (d == 0 || d > 9) return 1;
			for (size_t k = d; k < 9; k++) f *= 10;
			frac_ns = f; has_frac = true;
			if (i >= n) return 3;                   // fraction at the very end without 'S': library-specific, not pinned
			c = p[i++];
			if (c != 'S') return 1;
		}
		i128 mul;
		if (date) { if (c == 'W') mul = 604800; else if (c == 'D') mul = 86400; else return 1; }
		else { if (c == 'H') mul = 3600; else if (c == 'M') mul = 60; else if (c == 'S') mul = 1; else return 1; }
		(void)has_frac;
		// seconds target: fraction rounds to whole seconds (round half to even as std::chrono::round)
		i128 add = v * mul;
		i128 r = frac_ns / 1000000000; i128 rem = frac_ns % 1000000000;
		if (rem > 500000000 || (rem == 500000000 && (r & 1))) r++;
		add += r;
		total += neg ? -add : add;
		any = true;
		if (total > (i128)INT64_MAX || total < (i128)INT64_MIN) return 2;
		if (i < n && (p[i] == ' ' || (p[i] >= 9 && p[i] <= 13))) break;     // stops at white space
	}
	if (!any) return 1;
	*outv = total; return 0;
}
VH_EXPORT int vp_h15f_dur(const unsigned char* in, unsigned char* out) {
	size_t n = in[0] <= 8 ? in[0] : 8; const char* p = reinterpret_cast<const char*>(in + 1);
	chr::seconds d(4242);
	int rc = vh::outcome([&] { Convert::Detail::To(std::string_view(p, n), d); });
	out[0] = (unsigned char)rc; vh::wr(out + 1, (int64_t)d.count());
	i128 v = 0; int e = ref_duration(p, n, &v);
	if (e == 3) return 1;
	if (e == 1) return rc == vh::INVALID_ARGUMENT && d.count() == 4242;
	if (e == 2) return rc == vh::OUT_OF_RANGE && d.count() == 4242;
	return rc == vh::OK && (i128)d.count() == v;
}
VH_EXPORT int va_fields(const unsigned char* in) { return fields_ok(in); }
VH_EXPORT int vp_h15e_s(const unsigned char* in, unsigned char* out) { return prop_parse<chr::seconds>(in, out); }
VH_EXPORT int vp_h15e_ms(const unsigned char* in, unsigned char* out) { return prop_parse<chr::milliseconds>(in, out); }
VH_EXPORT int va_h15f(const unsigned char* in) { return in[0] <= 8; }
VH_EXPORT int va_h15c(const unsigned char* in) { return in[0] <= 11; }
typedef chr::duration<uint64_t, std::ratio<1>> du_sec;  typedef chr::duration<uint64_t, std::ratio<60>> du_min;
typedef chr::duration<uint64_t, std::ratio<3600>> du_hour; typedef chr::duration<uint64_t, std::ratio<86400>> du_day; typedef chr::duration<uint64_t, std::ratio<604800>> du_week;
typedef chr::duration<int64_t, std::ratio<86400>> days_t;   typedef chr::duration<int32_t, std::milli> ms32_t;     typedef chr::duration<int8_t, std::ratio<1>> s8_t;
#define E(name, body) VH_EXPORT int name(const unsigned char* in, unsigned char* out) { return body; }
E(vp_h15a_us_ns, (prop_cast<du_sec, chr::nanoseconds>(in, out))) E(vp_h15a_um_s, (prop_cast<du_min, chr::seconds>(in, out)))
E(vp_h15a_uh_ms, (prop_cast<du_hour, chr::milliseconds>(in, out)))   E(vp_h15a_ud_s, (prop_cast<du_day, chr::seconds>(in, out)))
E(vp_h15a_uw_h, (prop_cast<du_week, chr::hours>(in, out)))           E(vp_h15a_us_ms32, (prop_cast<du_sec, ms32_t>(in, out)))
E(vp_h15a_s_ns, (prop_cast<chr::seconds, chr::nanoseconds>(in, out))) E(vp_h15a_d_ns, (prop_cast<days_t, chr::nanoseconds>(in, out)))
E(vp_h15a_s_s8, (prop_cast<chr::seconds, s8_t>(in, out)))             E(vp_h15a_us_us, (prop_cast<du_sec, du_sec>(in, out)))
E(vp_h15a_s_h, (prop_cast<chr::seconds, chr::hours>(in, out)))        E(vp_h15a_ns_s, (prop_cast<chr::nanoseconds, chr::seconds>(in, out)))
E(vp_h15a_s_us64, (prop_cast<chr::seconds, du_sec>(in, out)))     E(vp_h15a_min_d, (prop_cast<chr::minutes, days_t>(in, out)))
E(vp_h15b_tp_ns_s, (prop_add_tp<chr::nanoseconds, chr::seconds>(in, out))) E(vp_h15b_tp_s_d, (prop_add_tp<chr::seconds, days_t>(in, out)))
E(vp_h15b_tp_ms_ns, (prop_add_tp<chr::milliseconds, chr::nanoseconds>(in, out)))
E(vp_h15b_dur_s_ns, (prop_add_dur<chr::seconds, chr::nanoseconds>(in, out))) E(vp_h15b_dur_ns_s, (prop_add_dur<chr::nanoseconds, chr::seconds>(in, out)))
E(vp_h15b_dur_ms32_s, (prop_add_dur<ms32_t, chr::seconds>(in, out)))
//@ OBL {"name": "h15a_us_ns", "prop": "vp_h15a_us_ns", "in": 16, "out": 16, "unwind": 6, "backends": ["kissat", "default", "cvc5", "z3"], "cap_s": 900, "family": "h15a", "bounds": "every 64-bit count (multiplication-only direction)", "desc": "SafeDurationCast duration<uint64,1> -> nanoseconds: exact or out_of_range, never wraps"}
//@ OBL {"name": "h15a_um_s", "prop": "vp_h15a_um_s", "in": 16, "out": 16, "unwind": 6, "backends": ["kissat", "default", "cvc5", "z3"], "cap_s": 900, "family": "h15a", "bounds": "every 64-bit count (multiplication-only direction)", "desc": "SafeDurationCast duration<uint64,60> -> seconds: exact or out_of_range, never wraps"}
//@ OBL {"name": "h15a_uh_ms", "prop": "vp_h15a_uh_ms", "in": 16, "out": 16, "unwind": 6, "backends": ["kissat", "default", "cvc5", "z3"], "cap_s": 900, "family": "h15a", "bounds": "every 64-bit count (multiplication-only direction)", "desc": "SafeDurationCast duration<uint64,3600> -> milliseconds: exact or out_of_range, never wraps"}
//@ OBL {"name": "h15a_ud_s", "prop": "vp_h15a_ud_s", "in": 16, "out": 16, "unwind": 6, "backends": ["kissat", "default", "cvc5", "z3"], "cap_s": 900, "family": "h15a", "bounds": "every 64-bit count (multiplication-only direction)", "desc": "SafeDurationCast duration<uint64,86400> -> seconds: exact or out_of_range, never wraps"}
//@ OBL {"name": "h15a_uw_h", "prop": "vp_h15a_uw_h", "in": 16, "out": 16, "unwind": 6, "backends": ["kissat", "default", "cvc5", "z3"], "cap_s": 900, "family": "h15a", "bounds": "every 64-bit count (multiplication-only direction)", "desc": "SafeDurationCast duration<uint64,604800> -> hours: exact or out_of_range, never wraps"}
//@ OBL {"name": "h15a_us_ms32", "prop": "vp_h15a_us_ms32", "in": 16, "out": 16, "unwind": 6, "backends": ["kissat", "default", "cvc5", "z3"], "cap_s": 900, "family": "h15a", "bounds": "every 64-bit count (multiplication-only direction)", "desc": "SafeDurationCast duration<uint64,1> -> duration<int32,milli>: exact or out_of_range, never wraps"}
//@ OBL {"name": "h15a_s_ns", "prop": "vp_h15a_s_ns", "in": 16, "out": 16, "unwind": 6, "backends": ["kissat", "default", "cvc5", "z3"], "cap_s": 900, "family": "h15a", "bounds": "every 64-bit count (multiplication-only direction)", "desc": "SafeDurationCast seconds -> nanoseconds: exact or out_of_range, never wraps"}
//@ OBL {"name": "h15a_d_ns", "prop": "vp_h15a_d_ns", "in": 16, "out": 16, "unwind": 6, "backends": ["kissat", "default", "cvc5", "z3"], "cap_s": 900, "family": "h15a", "bounds": "every 64-bit count (multiplication-only direction)", "desc": "SafeDurationCast days -> nanoseconds: exact or out_of_range, never wraps"}
//@ OBL {"name": "h15a_s_s8", "prop": "vp_h15a_s_s8", "in": 16, "out": 16, "unwind": 6, "backends": ["kissat", "default", "cvc5", "z3"], "cap_s": 900, "family": "h15a", "bounds": "every 64-bit count (multiplication-only direction)", "desc": "SafeDurationCast seconds -> duration<int8>: exact or out_of_range, never wraps"}
//@ OBL {"name": "h15a_us_us", "prop": "vp_h15a_us_us", "in": 16, "out": 16, "unwind": 6, "backends": ["kissat", "default", "cvc5", "z3"], "cap_s": 900, "family": "h15a", "bounds": "every 64-bit count (multiplication-only direction)", "desc": "SafeDurationCast identity: exact or out_of_range, never wraps"}
//@ OBL {"name": "h15a_s_us64", "prop": "vp_h15a_s_us64", "in": 16, "out": 16, "unwind": 6, "backends": ["kissat", "default", "cvc5", "z3"], "cap_s": 900, "family": "h15a", "bounds": "every 64-bit count (multiplication-only direction)", "desc": "SafeDurationCast seconds(int64) -> duration<uint64>: exact or out_of_range, never wraps"}
//@ OBL {"name": "h15a_s_h", "prop": "vp_h15a_s_h", "in": 16, "out": 16, "unwind": 6, "backends": ["kissat", "default", "cvc5", "z3"], "cap_s": 900, "family": "h15a", "cassume": ["RD64(in,0) < (1LL<<24) && RD64(in,0) > -(1LL<<24)"], "bounds": "|count| < 2^24 (division-by-constant direction)", "desc": "SafeDurationCast seconds -> hours: exact or out_of_range (precision loss rejected)"}
//@ OBL {"name": "h15a_ns_s", "prop": "vp_h15a_ns_s", "in": 16, "out": 16, "unwind": 6, "backends": ["kissat", "default", "cvc5", "z3"], "cap_s": 900, "family": "h15a", "cassume": ["RD64(in,0) < (1LL<<24) && RD64(in,0) > -(1LL<<24)"], "bounds": "|count| < 2^24 (division-by-constant direction)", "desc": "SafeDurationCast nanoseconds -> seconds: exact or out_of_range (precision loss rejected)"}
//@ OBL {"name": "h15a_min_d", "prop": "vp_h15a_min_d", "in": 16, "out": 16, "unwind": 6, "backends": ["kissat", "default", "cvc5", "z3"], "cap_s": 900, "family": "h15a", "cassume": ["RD64(in,0) < (1LL<<24) && RD64(in,0) > -(1LL<<24)"], "bounds": "|count| < 2^24 (division-by-constant direction)", "desc": "SafeDurationCast minutes -> days: exact or out_of_range (precision loss rejected)"}
//@ OBL {"name": "h15b_tp_ns_s", "prop": "vp_h15b_tp_ns_s", "in": 16, "out": 16, "unwind": 6, "backends": ["kissat", "default", "cvc5", "z3"], "cap_s": 900, "bounds": "every int64 time point, every int64 addend", "desc": "SafeAddDuration(time_point<ns>, seconds)"}
//@ OBL {"name": "h15b_tp_s_d", "prop": "vp_h15b_tp_s_d", "in": 16, "out": 16, "unwind": 6, "backends": ["kissat", "default", "cvc5", "z3"], "cap_s": 900, "bounds": "every int64 time point, every int64 addend", "desc": "SafeAddDuration(time_point<s>, days)"}
//@ OBL {"name": "h15b_tp_ms_ns", "prop": "vp_h15b_tp_ms_ns", "in": 16, "out": 16, "unwind": 6, "backends": ["kissat", "default", "cvc5", "z3"], "cap_s": 900, "cassume": ["RD64(in,8) < (1LL<<24) && RD64(in,8) > -(1LL<<24)"], "bounds": "every time point, |addend| < 2^24 ns (division direction)", "desc": "SafeAddDuration(time_point<ms>, nanoseconds): inexact addend rejected"}
//@ OBL {"name": "h15b_dur_s_ns", "prop": "vp_h15b_dur_s_ns", "in": 16, "out": 16, "unwind": 6, "backends": ["kissat", "default", "cvc5", "z3"], "cap_s": 900, "cassume": ["RD64(in,8) < (1LL<<24) && RD64(in,8) > -(1LL<<24)"], "bounds": "|addend| < 2^24", "desc": "SafeAddDuration(seconds, nanoseconds)"}
//@ OBL {"name": "h15b_dur_ns_s", "prop": "vp_h15b_dur_ns_s", "in": 16, "out": 16, "unwind": 6, "backends": ["kissat", "default", "cvc5", "z3"], "cap_s": 900, "bounds": "full 64-bit", "desc": "SafeAddDuration(nanoseconds, seconds)"}
//@ OBL {"name": "h15b_dur_ms32_s", "prop": "vp_h15b_dur_ms32_s", "in": 16, "out": 16, "unwind": 6, "backends": ["kissat", "default", "cvc5", "z3"], "cap_s": 900, "bounds": "full width", "desc": "SafeAddDuration(duration<int32,milli>, seconds)"}
//@ OBL {"name": "h15c_frac", "prop": "vp_h15c_frac", "out": 16, "unwind": 14, "backends": ["kissat", "default", "cvc5", "z3"], "cap_s": 900, "assume": "va_h15c", "in": 12, "bounds": "every string of length <= 3 (division by the symbolic value: longer inputs do not close; thorough: 4)", "desc": "ParseSecondFractions: 1..9 digits exact nanoseconds, otherwise failure", "cassume": ["in[0] <= 3"]}
//@ OBL {"name": "h15d_s", "prop": "vp_h15d_s", "out": 16, "unwind": 8, "backends": ["kissat", "default", "cvc5", "z3"], "cap_s": 900, "in": 20, "bounds": "20-character buffers 20??-??-??T??:??:??? with the 13 remaining characters arbitrary (thorough: all 15 non-separator characters arbitrary)", "desc": "To(string_view, time_point<seconds>&): calendar-valid -> exact reference instant; out-of-range fields (incl. Feb 29 of non-leap years) -> invalid_argument", "cassume": ["in[4]=='-' && in[7]=='-' && in[10]=='T' && in[13]==':' && in[16]==':'", "in[0]=='2' && in[1]=='0'"]}
//@ OBL {"name": "h15d_s_T", "prop": "vp_h15d_s", "out": 16, "unwind": 8, "backends": ["kissat", "default", "cvc5", "z3"], "cap_s": 3600, "in": 20, "bounds": "every 20-character buffer with the five separators in place and ALL 15 other characters arbitrary (digits or not, 'Z' or not)", "desc": "To(string_view, time_point<seconds>&): calendar-valid -> exact reference instant; out-of-range fields (incl. Feb 29 of non-leap years) -> invalid_argument", "cassume": ["in[4]=='-' && in[7]=='-' && in[10]=='T' && in[13]==':' && in[16]==':'"], "tier": "open", "supersedes": "h15d_s"}
//@ OBL {"name": "h15f_dur", "prop": "vp_h15f_dur", "out": 16, "unwind": 10, "backends": ["kissat", "default", "cvc5", "z3"], "cap_s": 3600, "assume": "va_h15f", "in": 9, "bounds": "every string of length <= 6", "desc": "To(string_view, duration<seconds>&) == reference ISO duration parser (value / invalid_argument / out_of_range)", "cassume": ["in[0] <= 6"], "tier": "open"}
//@ OBL {"name": "h15f_dur_T", "prop": "vp_h15f_dur", "out": 16, "unwind": 10, "backends": ["kissat", "default", "cvc5", "z3"], "cap_s": 3600, "assume": "va_h15f", "in": 9, "bounds": "every string of length <= 8", "desc": "To(string_view, duration<seconds>&) == reference ISO duration parser (value / invalid_argument / out_of_range)", "cassume": [], "tier": "open", "supersedes": "h15f_dur"}
//@ OBL {"prop": "vp_h15e_s", "assume": "va_fields", "in": 8, "out": 16, "unwind": 8, "backends": ["kissat", "default"], "cap_s": 900, "name": "h15e_s", "cassume": ["RD16(in,0) >= 1896 && RD16(in,0) <= 2104"], "bounds": "years 1896..2104, every 00..99 value in each other field", "desc": "To(string_view, time_point<seconds>&) on rendered text: denoted instant (independent reference), invalid_argument for impossible dates, out_of_range"}
//@ OBL {"prop": "vp_h15e_s", "assume": "va_fields", "in": 8, "out": 16, "unwind": 8, "backends": ["kissat", "default"], "cap_s": 900, "name": "h15e_s_neg", "cassume": ["RD16(in,0) >= -404 && RD16(in,0) <= -396"], "bounds": "years -0404..-0396", "desc": "same, negative years around a 400-year boundary"}
//@ OBL {"prop": "vp_h15e_ms", "assume": "va_fields", "in": 8, "out": 16, "unwind": 8, "backends": ["kissat", "default"], "cap_s": 3600, "name": "h15e_ms", "cassume": ["RD16(in,0) >= 1896 && RD16(in,0) <= 2104"], "bounds": "years 1896..2104", "desc": "same into a milliseconds based time point (multiplication by 1000, overflow impossible in window)", "tier": "open"}
//@ OBL {"prop": "vp_h15e_s", "assume": "va_fields", "in": 8, "out": 16, "unwind": 8, "backends": ["kissat", "default"], "cap_s": 3600, "name": "h15e_s_T", "tier": "open", "supersedes": "h15e_s", "bounds": "years -9999..9999", "desc": "same, full 4-digit year range"}
//@ VEC * 0000000000000000000000000000000000000000
//@ VEC * 323032332d30322d32395430303a30303a30305a
//@ VEC * 323032342d30322d32395432333a35393a35395a
//@ VEC * 0550543130530000000000
//@ VEC * 082d50315754314d00
//@ VEC * 03393939000000000000000000
