//@ PROPERTY C07
//@ LINK msgpack/msgpack_readers.cpp common/binary_stream_reader.cpp
//@ MODELDEF VERIF_STRLEN_ZERO
//@ OVERRIDE _ZN13BitSerializer7Convert6Detail2ToImcSaIcELi0EEEvRKT_RNSt7__cxx1112basic_stringIT0_St11char_traitsIS9_ET1_EE
// H07a-c: CMsgPackStringReader (src/msgpack/msgpack_readers.cpp) on ARBITRARY bytes versus a reference decoder transcribed from
// the MessagePack specification (harness/ref/msgpack_spec.h).
// in[0] = n (number of bytes, <= 9), in[1] = policy bits (1: mismatched=Skip, 2: overflow=Skip), in[2..11) = bytes,
// in[12..20) = previous value of the target.
// Oracle: every legal integer family/width loads into every arithmetic target iff representable (else overflow policy), both
// float widths into float/double targets, nil -> not loaded, other kinds -> mismatched-types policy consuming exactly the
// value (reference length), truncated / never-used (C1) encodings -> parsing error; target untouched unless loaded.
#include "mp_common.h"
#include <limits>
using namespace mpc;
typedef __int128 i128;
static constexpr size_t N = 9;

struct In { size_t n; unsigned pol; const unsigned char* b; const unsigned char* prev; };
static inline In load(const unsigned char* in) { In r; r.n = in[0] <= N ? in[0] : N; r.pol = in[1] & 3; r.b = in + 2; r.prev = in + 12; return r; }
// these obligations are about scalars, strings, headers and extensions: the value offered is not an array/map (skipping whole
// containers - the recursive part of SkipValueImpl - is decided by the C05 obligations); the header readers see every first byte
static inline bool is_container_byte(unsigned b) { return (b >= 0x80 && b <= 0x9f) || (b >= 0xdc && b <= 0xdf); }
VH_EXPORT int va_h07(const unsigned char* in) { In v = load(in); return in[0] <= N && !(v.n && is_container_byte(v.b[0])); }
VH_EXPORT int va_h07_len(const unsigned char* in) { return in[0] <= N; }

template <class T> static inline bool same_bits(const T& a, const T& b) { return std::memcmp(&a, &b, sizeof(T)) == 0; }

// mismatched-types handling of a complete value of reference length `total` (0 = truncated inside)
static inline bool mismatch_ok(const In& v, const mp::Obj& o, int rc, size_t pos, bool unchanged) {
	const bool skip = (v.pol & 1) != 0;
	size_t total = mp::total_len(v.b, v.n, 0);
	// ThrowError: rejected as mismatched - or, when the offending value is itself truncated, as a parsing error
	if (!skip && o.kind != mp::Nil) return (rc == RC_MISMATCH || (rc == RC_PARSING && total == 0)) && unchanged;
	if (total == 0) return rc == RC_PARSING && unchanged;
	return rc == vh::NOT_LOADED && pos == total && unchanged;
}
template <class T> static inline bool overflow_ok(const In& v, const mp::Obj& o, int rc, size_t pos, bool unchanged) {
	if (v.pol & 2) return rc == vh::NOT_LOADED && pos == o.hdr && unchanged;
	return rc == RC_OVERFLOW && unchanged;
}
// does the reader for target T decode this first byte itself (so that a truncation is noticed while decoding), or is the
// value of another kind for it (then ThrowError may reject it as mismatched before its truncation is noticed)?
template <class T> static inline bool direct(unsigned b0) {
	if constexpr (std::is_same_v<T, std::nullptr_t>) return b0 == 0xc0;
	else if constexpr (std::is_integral_v<T>) return b0 <= 0x7f || b0 >= 0xe0 || (b0 >= 0xcc && b0 <= 0xd3) || b0 == 0xc2 || b0 == 0xc3;
	else return b0 == 0xca || b0 == 0xcb;
}

template <class T> static inline int check(const In& v, int rc, const T& val, const T& prev, size_t pos) {
	const bool unchanged = same_bits(val, prev);
	if (v.n == 0) return rc == RC_PARSING && unchanged;
	mp::Obj o = mp::decode(v.b, v.n);
	if (o.kind == mp::Truncated) {
		// a truncated non-number may be rejected as mismatched before the truncation is noticed (ThrowError policy)
		if (rc == RC_MISMATCH && !(v.pol & 1) && !direct<T>(v.b[0])) return unchanged;
		return rc == RC_PARSING && unchanged;
	}
	if (o.kind == mp::Invalid) {           // 0xC1 "never used"
		if (rc == RC_MISMATCH && !(v.pol & 1)) return unchanged;
		return rc == RC_PARSING && unchanged;
	}
	if constexpr (std::is_same_v<T, std::nullptr_t>) {
		if (o.kind == mp::Nil) return rc == vh::OK && pos == 1;
		return mismatch_ok(v, o, rc, pos, true);
	} else if constexpr (std::is_integral_v<T>) {
		if (o.kind == mp::Int || (o.kind == mp::Bool && std::is_same_v<T, bool>)) {
			bool fits = std::is_same_v<T, bool> ? (o.ival == 0 || o.ival == 1) : (o.ival >= (i128)std::numeric_limits<T>::lowest() && o.ival <= (i128)std::numeric_limits<T>::max());
			if (fits) return rc == vh::OK && (i128)val == o.ival && pos == o.hdr;
			return overflow_ok<T>(v, o, rc, pos, unchanged);
		}
		if (o.kind == mp::Bool) {           // true/false offered to an integer target: converted to 1/0, or handled as another kind
			if (rc == vh::OK) return (i128)val == o.ival && pos == 1;
			return mismatch_ok(v, o, rc, pos, unchanged);
		}
		return mismatch_ok(v, o, rc, pos, unchanged);
	} else {
		if (o.kind == mp::Float32) {
			uint32_t b32 = (uint32_t)o.bits; float f; std::memcpy(&f, &b32, 4);
			if constexpr (std::is_same_v<T, float>) { uint32_t got; std::memcpy(&got, &val, 4); return rc == vh::OK && got == b32 && pos == 5; }
			else return rc == vh::OK && pos == 5 && ((f != f) ? (val != val) : (val == static_cast<double>(f)));
		}
		if (o.kind == mp::Float64) {
			uint64_t b64 = o.bits; double d; std::memcpy(&d, &b64, 8);
			if constexpr (std::is_same_v<T, double>) { uint64_t got; std::memcpy(&got, &val, 8); return rc == vh::OK && got == b64 && pos == 9; }
			else {
				if (!(d == d) || d - d != 0) return rc != vh::NON_STD && rc != vh::STD_EXCEPTION && (rc == vh::OK || unchanged);   // NaN / Inf: not pinned down
				const double mx = std::numeric_limits<float>::max();
				if (d >= -mx && d <= mx) return rc == vh::OK && val == static_cast<float>(d) && pos == 9;
				return overflow_ok<T>(v, o, rc, pos, unchanged);
			}
		}
		if (o.kind == mp::Int || o.kind == mp::Bool) {    // integer offered to a floating target: exact conversion or mismatch handling
			if (rc == vh::OK) return val == static_cast<T>((long double)o.ival) && pos == o.hdr;
			return mismatch_ok(v, o, rc, pos, unchanged);
		}
		return mismatch_ok(v, o, rc, pos, unchanged);
	}
}
template <class T> static inline int prop_scalar(const unsigned char* in, unsigned char* out) {
	In v = load(in);
	SerializationOptions opt = options(v.pol);
	T prev{}; if constexpr (!std::is_same_v<T, std::nullptr_t>) prev = vh::rd<T>(v.prev);
	T val = prev;
	CMsgPackStringReader r(std::string_view(reinterpret_cast<const char*>(v.b), v.n), opt);
	verif_symbolic_phase();
	int rc = outcome([&] { return r.ReadValue(val); });
	size_t pos = r.GetPosition();
	out[0] = (unsigned char)rc; out[1] = (unsigned char)pos; if constexpr (!std::is_same_v<T, std::nullptr_t>) vh::wr(out + 2, val);
	return check<T>(v, rc, val, prev, pos);
}
// ---- H07b lengths: str / array / map / bin headers, declared length vs bytes available
template <int K> static inline int prop_len(const unsigned char* in, unsigned char* out) {
	In v = load(in);
	SerializationOptions opt = options(v.pol);
	CMsgPackStringReader r(std::string_view(reinterpret_cast<const char*>(v.b), v.n), opt);
	verif_symbolic_phase();
	size_t sz = 0x5555; std::string_view sv("prev", 4);
	int rc = outcome([&] { if (K == mp::Str) return r.ReadValue(sv); if (K == mp::Array) return r.ReadArraySize(sz); if (K == mp::Map) return r.ReadMapSize(sz); return r.ReadBinarySize(sz); });
	size_t pos = r.GetPosition();
	out[0] = (unsigned char)rc; out[1] = (unsigned char)pos; vh::wr(out + 2, (uint64_t)(K == mp::Str ? sv.size() : sz));
	const bool unchanged = K == mp::Str ? (sv.size() == 4 && sv.data()[0] == 'p') : sz == 0x5555;
	if (v.n == 0) return rc == RC_PARSING;
	// not a binary at all: left unread for the array fallback, whatever it is
	if (K == mp::Bin && !(v.b[0] >= 0xc4 && v.b[0] <= 0xc6)) return rc == vh::NOT_LOADED && pos == 0 && unchanged;
	mp::Obj o = mp::decode(v.b, v.n);
	if (o.kind == mp::Truncated) { if (rc == RC_MISMATCH && !(v.pol & 1) && mp::decode(v.b, 9).kind != K) return unchanged; return rc == RC_PARSING; }
	if (o.kind == mp::Invalid) { if (rc == RC_MISMATCH && !(v.pol & 1)) return unchanged; return rc == RC_PARSING; }
	if (o.kind == K) {
		if (K == mp::Str) {
			if (o.len > v.n - o.hdr) return rc == RC_PARSING;           // declares more than is there (incl. 4 GiB)
			if (rc != vh::OK || pos != o.hdr + o.len || sv.size() != o.len) return 0;
			for (size_t i = 0; i < o.len; i++) if ((unsigned char)sv[i] != v.b[o.hdr + i]) return 0;
			return 1;
		}
		return rc == vh::OK && sz == o.len && pos == o.hdr;
	}
	return mismatch_ok(v, o, rc, pos, unchanged);
}
// ---- H07c timestamp extension
VH_EXPORT int vk_h07c_ts(const unsigned char* in) { In v = load(in); return (v.n >= 3 && v.b[0] == 0xC7 && v.b[1] == 12 && v.b[2] == 0xFF) ? 1 : 0; }   // F5: 96-bit layout field order
VH_EXPORT int vp_h07c_ts(const unsigned char* in, unsigned char* out) {
	In v = load(in);
	SerializationOptions opt = options(v.pol);
	CMsgPackStringReader r(std::string_view(reinterpret_cast<const char*>(v.b), v.n), opt);
	verif_symbolic_phase();
	CBinTimestamp ts(0x1234, 77);
	int rc = outcome([&] { return r.ReadValue(ts); });
	size_t pos = r.GetPosition();
	out[0] = (unsigned char)rc; out[1] = (unsigned char)pos; vh::wr(out + 2, ts.Seconds); vh::wr(out + 10, ts.Nanoseconds);
	const bool unchanged = ts.Seconds == 0x1234 && ts.Nanoseconds == 77;
	if (v.n == 0) return rc == RC_PARSING;
	mp::Obj o = mp::decode(v.b, v.n);
	if (o.kind == mp::Truncated) { if (rc == RC_MISMATCH && !(v.pol & 1)) return unchanged; return rc == RC_PARSING; }
	if (o.kind == mp::Invalid) { if (rc == RC_MISMATCH && !(v.pol & 1)) return unchanged; return rc == RC_PARSING; }
	if (o.kind == mp::Timestamp) return rc == vh::OK && ts.Seconds == o.ts_sec && (uint32_t)ts.Nanoseconds == o.ts_nsec && pos == o.hdr + o.len;
	if (o.kind == mp::Ext && o.ext_type == -1) {      // timestamp type with a size the spec does not define
		if (o.len > v.n - o.hdr) return rc == RC_PARSING || (rc == RC_MISMATCH && !(v.pol & 1));
		return rc == RC_PARSING || mismatch_ok(v, o, rc, pos, unchanged);
	}
	return mismatch_ok(v, o, rc, pos, unchanged);
}
// ---- H07c, longer inputs: the 10-byte (timestamp 64) and 15-byte (timestamp 96) layouts do not fit the 9-byte bound above.
// in[0] = n (<= 16), in[1] = policy, in[2..18) = bytes; the driver pins the header to an ext/fixext of type -1.
VH_EXPORT int va_h07c_ts16(const unsigned char* in) { return in[0] <= 16; }
// F5 class: a timestamp carried in the 12-byte layout (ext 8 or ext 16 header with length 12, type -1)
static inline size_t ts96_hdr(const unsigned char* b) { if (b[0] == 0xC7 && b[1] == 12 && b[2] == 0xFF) return 3; if (b[0] == 0xC8 && b[1] == 0 && b[2] == 12 && b[3] == 0xFF) return 4; return 0; }
VH_EXPORT int vk_h07c_ts16(const unsigned char* in) { return (in[0] >= 4 && ts96_hdr(in + 2)) ? 1 : 0; }
VH_EXPORT int vp_h07c_ts16(const unsigned char* in, unsigned char* out) {
	In v; v.n = in[0] <= 16 ? in[0] : 16; v.pol = in[1] & 3; v.b = in + 2; v.prev = in;
	SerializationOptions opt = options(v.pol);
	CMsgPackStringReader r(std::string_view(reinterpret_cast<const char*>(v.b), v.n), opt);
	verif_symbolic_phase();
	CBinTimestamp ts(0x1234, 77);
	int rc = outcome([&] { return r.ReadValue(ts); });
	size_t pos = r.GetPosition();
	out[0] = (unsigned char)rc; out[1] = (unsigned char)pos; vh::wr(out + 2, ts.Seconds); vh::wr(out + 10, ts.Nanoseconds);
	const bool unchanged = ts.Seconds == 0x1234 && ts.Nanoseconds == 77;
	if (v.n == 0) return rc == RC_PARSING;
	mp::Obj o = mp::decode(v.b, v.n);
	if (o.kind == mp::Truncated) return (rc == RC_PARSING || (rc == RC_MISMATCH && !(v.pol & 1))) && unchanged;
	if (o.kind == mp::Timestamp) return rc == vh::OK && ts.Seconds == o.ts_sec && (uint32_t)ts.Nanoseconds == o.ts_nsec && pos == o.hdr + o.len;
	if (o.kind == mp::Ext && o.ext_type == -1) {
		if (o.len > v.n - o.hdr) return rc == RC_PARSING || (rc == RC_MISMATCH && !(v.pol & 1));
		return rc == RC_PARSING || mismatch_ok(v, o, rc, pos, unchanged);
	}
	return mismatch_ok(v, o, rc, pos, unchanged);
}
// the recorded deviation F5 pinned down exactly: a complete 12-byte timestamp is decoded as seconds(64), nanoseconds(32)
VH_EXPORT int va_h07c_ts16_f5(const unsigned char* in) { return in[0] <= 16 && vk_h07c_ts16(in) == 1; }
VH_EXPORT int vp_h07c_ts16_f5(const unsigned char* in, unsigned char* out) {
	size_t n = in[0] <= 16 ? in[0] : 16; const unsigned char* b = in + 2;
	SerializationOptions opt = options(in[1] & 3);
	CMsgPackStringReader r(std::string_view(reinterpret_cast<const char*>(b), n), opt);
	verif_symbolic_phase();
	CBinTimestamp ts(0x1234, 77);
	int rc = outcome([&] { return r.ReadValue(ts); });
	out[0] = (unsigned char)rc; vh::wr(out + 2, ts.Seconds); vh::wr(out + 10, ts.Nanoseconds);
	size_t h = ts96_hdr(b);
	if (n < h + 12) return rc == RC_PARSING;        // (the target may already hold the seconds read before the truncation was noticed)
	return rc == vh::OK && r.GetPosition() == h + 12 && (uint64_t)ts.Seconds == mp::be(b + h, 8) && (uint32_t)ts.Nanoseconds == (uint32_t)mp::be(b + h + 8, 4);
}
// F5 class pinned down: a 12-byte timestamp is decoded as seconds(64) then nanoseconds(32) - and nothing else is tolerated
VH_EXPORT int va_h07c_ts_f5(const unsigned char* in) { return va_h07(in) && vk_h07c_ts(in) == 1; }
VH_EXPORT int vp_h07c_ts_f5(const unsigned char* in, unsigned char* out) {
	In v = load(in);
	SerializationOptions opt = options(v.pol);
	CMsgPackStringReader r(std::string_view(reinterpret_cast<const char*>(v.b), v.n), opt);
	verif_symbolic_phase();
	CBinTimestamp ts(0x1234, 77);
	int rc = outcome([&] { return r.ReadValue(ts); });
	out[0] = (unsigned char)rc;
	return rc == RC_PARSING && ts.Seconds == 0x1234;      // within 9 bytes a 15-byte timestamp is always truncated
}
#define DEF(name, T) VH_EXPORT int vp_h07a_##name(const unsigned char* in, unsigned char* out) { return prop_scalar<T>(in, out); }
DEF(bool, bool) DEF(char, char) DEF(u8, uint8_t) DEF(u16, uint16_t) DEF(u32, uint32_t) DEF(u64, uint64_t)
DEF(i8, int8_t) DEF(i16, int16_t) DEF(i32, int32_t) DEF(i64, int64_t) DEF(f32, float) DEF(f64, double) DEF(nil, std::nullptr_t)
VH_EXPORT int vp_h07b_str(const unsigned char* in, unsigned char* out) { return prop_len<mp::Str>(in, out); }
VH_EXPORT int vp_h07b_array(const unsigned char* in, unsigned char* out) { return prop_len<mp::Array>(in, out); }
VH_EXPORT int vp_h07b_map(const unsigned char* in, unsigned char* out) { return prop_len<mp::Map>(in, out); }
VH_EXPORT int vp_h07b_bin(const unsigned char* in, unsigned char* out) { return prop_len<mp::Bin>(in, out); }
//@ OBL {"assume": "va_h07", "in": 20, "out": 24, "unwind": 12, "bounds": "every byte string of length <= 9 whose first byte is not an array/map header, both policies symbolic, previous target value symbolic", "name": "h07a_bool", "family": "h07a", "prop": "vp_h07a_bool", "desc": "CMsgPackStringReader::ReadValue(bool&) == reference decoder (value / policy / parsing error / position)", "recursion": {"SkipValueImpl": 0, "total_len": 1}, "unwind_fn": {"SkipValueImpl": 1}, "fs": 32}
//@ OBL {"assume": "va_h07", "in": 20, "out": 24, "unwind": 12, "bounds": "every byte string of length <= 9 whose first byte is not an array/map header, both policies symbolic, previous target value symbolic", "name": "h07a_char", "family": "h07a", "prop": "vp_h07a_char", "desc": "CMsgPackStringReader::ReadValue(char&) == reference decoder (value / policy / parsing error / position)", "recursion": {"SkipValueImpl": 0, "total_len": 1}, "unwind_fn": {"SkipValueImpl": 1}, "fs": 32}
//@ OBL {"assume": "va_h07", "in": 20, "out": 24, "unwind": 12, "bounds": "every byte string of length <= 9 whose first byte is not an array/map header, both policies symbolic, previous target value symbolic", "name": "h07a_u8", "family": "h07a", "prop": "vp_h07a_u8", "desc": "CMsgPackStringReader::ReadValue(uint8_t&) == reference decoder (value / policy / parsing error / position)", "recursion": {"SkipValueImpl": 0, "total_len": 1}, "unwind_fn": {"SkipValueImpl": 1}, "fs": 32}
//@ OBL {"assume": "va_h07", "in": 20, "out": 24, "unwind": 12, "bounds": "every byte string of length <= 9 whose first byte is not an array/map header, both policies symbolic, previous target value symbolic", "name": "h07a_u16", "family": "h07a", "prop": "vp_h07a_u16", "desc": "CMsgPackStringReader::ReadValue(uint16_t&) == reference decoder (value / policy / parsing error / position)", "recursion": {"SkipValueImpl": 0, "total_len": 1}, "unwind_fn": {"SkipValueImpl": 1}, "fs": 32}
//@ OBL {"assume": "va_h07", "in": 20, "out": 24, "unwind": 12, "bounds": "every byte string of length <= 9 whose first byte is not an array/map header, both policies symbolic, previous target value symbolic", "name": "h07a_u32", "family": "h07a", "prop": "vp_h07a_u32", "desc": "CMsgPackStringReader::ReadValue(uint32_t&) == reference decoder (value / policy / parsing error / position)", "recursion": {"SkipValueImpl": 0, "total_len": 1}, "unwind_fn": {"SkipValueImpl": 1}, "fs": 32}
//@ OBL {"assume": "va_h07", "in": 20, "out": 24, "unwind": 12, "bounds": "every byte string of length <= 9 whose first byte is not an array/map header, both policies symbolic, previous target value symbolic", "name": "h07a_u64", "family": "h07a", "prop": "vp_h07a_u64", "desc": "CMsgPackStringReader::ReadValue(uint64_t&) == reference decoder (value / policy / parsing error / position)", "recursion": {"SkipValueImpl": 0, "total_len": 1}, "unwind_fn": {"SkipValueImpl": 1}, "fs": 32}
//@ OBL {"assume": "va_h07", "in": 20, "out": 24, "unwind": 12, "bounds": "every byte string of length <= 9 whose first byte is not an array/map header, both policies symbolic, previous target value symbolic", "name": "h07a_i8", "family": "h07a", "prop": "vp_h07a_i8", "desc": "CMsgPackStringReader::ReadValue(int8_t&) == reference decoder (value / policy / parsing error / position)", "recursion": {"SkipValueImpl": 0, "total_len": 1}, "unwind_fn": {"SkipValueImpl": 1}, "fs": 32}
//@ OBL {"assume": "va_h07", "in": 20, "out": 24, "unwind": 12, "bounds": "every byte string of length <= 9 whose first byte is not an array/map header, both policies symbolic, previous target value symbolic", "name": "h07a_i16", "family": "h07a", "prop": "vp_h07a_i16", "desc": "CMsgPackStringReader::ReadValue(int16_t&) == reference decoder (value / policy / parsing error / position)", "recursion": {"SkipValueImpl": 0, "total_len": 1}, "unwind_fn": {"SkipValueImpl": 1}, "fs": 32}
//@ OBL {"assume": "va_h07", "in": 20, "out": 24, "unwind": 12, "bounds": "every byte string of length <= 9 whose first byte is not an array/map header, both policies symbolic, previous target value symbolic", "name": "h07a_i32", "family": "h07a", "prop": "vp_h07a_i32", "desc": "CMsgPackStringReader::ReadValue(int32_t&) == reference decoder (value / policy / parsing error / position)", "recursion": {"SkipValueImpl": 0, "total_len": 1}, "unwind_fn": {"SkipValueImpl": 1}, "fs": 32}
//@ OBL {"assume": "va_h07", "in": 20, "out": 24, "unwind": 12, "bounds": "every byte string of length <= 9 whose first byte is not an array/map header, both policies symbolic, previous target value symbolic", "name": "h07a_i64", "family": "h07a", "prop": "vp_h07a_i64", "desc": "CMsgPackStringReader::ReadValue(int64_t&) == reference decoder (value / policy / parsing error / position)", "recursion": {"SkipValueImpl": 0, "total_len": 1}, "unwind_fn": {"SkipValueImpl": 1}, "fs": 32}
//@ OBL {"assume": "va_h07", "in": 20, "out": 24, "unwind": 12, "bounds": "every byte string of length <= 9 whose first byte is not an array/map header, both policies symbolic, previous target value symbolic", "name": "h07a_f32", "family": "h07a", "prop": "vp_h07a_f32", "desc": "CMsgPackStringReader::ReadValue(float&) == reference decoder (value / policy / parsing error / position)", "recursion": {"SkipValueImpl": 0, "total_len": 1}, "unwind_fn": {"SkipValueImpl": 1}, "fs": 32}
//@ OBL {"assume": "va_h07", "in": 20, "out": 24, "unwind": 12, "bounds": "every byte string of length <= 9 whose first byte is not an array/map header, both policies symbolic, previous target value symbolic", "name": "h07a_f64", "family": "h07a", "prop": "vp_h07a_f64", "desc": "CMsgPackStringReader::ReadValue(double&) == reference decoder (value / policy / parsing error / position)", "recursion": {"SkipValueImpl": 0, "total_len": 1}, "unwind_fn": {"SkipValueImpl": 1}, "fs": 32}
//@ OBL {"assume": "va_h07", "in": 20, "out": 24, "unwind": 12, "bounds": "every byte string of length <= 9 whose first byte is not an array/map header, both policies symbolic, previous target value symbolic", "name": "h07a_nil", "family": "h07a", "prop": "vp_h07a_nil", "desc": "CMsgPackStringReader::ReadValue(std::nullptr_t&) == reference decoder (value / policy / parsing error / position)", "recursion": {"SkipValueImpl": 0, "total_len": 1}, "unwind_fn": {"SkipValueImpl": 1}, "fs": 32}
//@ OBL {"assume": "va_h07", "in": 20, "out": 24, "unwind": 12, "bounds": "every byte string of length <= 9 whose first byte is not an array/map header, both policies symbolic, previous target value symbolic", "name": "h07b_str", "family": "h07b", "prop": "vp_h07b_str", "desc": "length header reader (str): fix/8/16/32 forms, declared length vs available bytes", "recursion": {"SkipValueImpl": 0, "total_len": 1}, "unwind_fn": {"SkipValueImpl": 1}, "fs": 32}
//@ OBL {"assume": "va_h07_len", "in": 20, "out": 24, "unwind": 12, "bounds": "every byte string of length <= 9 under ThrowError for mismatching kinds (Skip of a mismatching container: C05)", "name": "h07b_array", "family": "h07b", "prop": "vp_h07b_array", "desc": "length header reader (array): fix/8/16/32 forms, declared length vs available bytes", "recursion": {"SkipValueImpl": 0, "total_len": 1}, "cassume": ["(in[1] & 1) == 0 || !((in[2] >= 0x80 && in[2] <= 0x9f) || (in[2] >= 0xdc && in[2] <= 0xdf))"], "unwind_fn": {"SkipValueImpl": 1}, "fs": 32}
//@ OBL {"assume": "va_h07_len", "in": 20, "out": 24, "unwind": 12, "bounds": "every byte string of length <= 9 under ThrowError for mismatching kinds (Skip of a mismatching container: C05)", "name": "h07b_map", "family": "h07b", "prop": "vp_h07b_map", "desc": "length header reader (map): fix/8/16/32 forms, declared length vs available bytes", "recursion": {"SkipValueImpl": 0, "total_len": 1}, "cassume": ["(in[1] & 1) == 0 || !((in[2] >= 0x80 && in[2] <= 0x9f) || (in[2] >= 0xdc && in[2] <= 0xdf))"], "unwind_fn": {"SkipValueImpl": 1}, "fs": 32}
//@ OBL {"assume": "va_h07", "in": 20, "out": 24, "unwind": 12, "bounds": "every byte string of length <= 9 whose first byte is not an array/map header, both policies symbolic, previous target value symbolic", "name": "h07b_bin", "family": "h07b", "prop": "vp_h07b_bin", "desc": "length header reader (bin): fix/8/16/32 forms, declared length vs available bytes", "recursion": {"SkipValueImpl": 0, "total_len": 1}, "unwind_fn": {"SkipValueImpl": 1}, "fs": 32}
//@ OBL {"assume": "va_h07", "in": 20, "out": 24, "unwind": 12, "bounds": "every byte string of length <= 9 whose first byte is not an array/map header, both policies symbolic, previous target value symbolic", "name": "h07c_ts", "family": "h07c_ts", "prop": "vp_h07c_ts", "known": "vk_h07c_ts", "desc": "ReadValue(CBinTimestamp&): fixext4/fixext8/ext8(12) type -1 per spec", "recursion": {"SkipValueImpl": 0, "total_len": 1}, "unwind_fn": {"SkipValueImpl": 1}, "mem_gb": 28, "fs": 32}
//@ OBL {"name": "h07c_ts16", "family": "h07c_ts16", "prop": "vp_h07c_ts16", "assume": "va_h07c_ts16", "known": "vk_h07c_ts16", "in": 18, "out": 24, "unwind": 12, "unwind_fn": {"SkipValueImpl": 1}, "recursion": {"SkipValueImpl": 0, "total_len": 1}, "cassume": ["(in[2] == 0xd6 || in[2] == 0xd7 || in[2] == 0xd8 || in[2] == 0xc7 || in[2] == 0xc8) && (in[2] >= 0xd4 ? in[3] == 0xff : (in[2] == 0xc7 ? in[4] == 0xff : in[5] == 0xff))"], "bounds": "every byte string of length <= 16 that starts with a fixext4/8/16, ext8 or ext16 header of type -1 (timestamp family), both policies", "desc": "ReadValue(CBinTimestamp&): timestamp 32/64/96 layouts incl. non-canonical ext8/ext16 carriers, sizes the spec does not define, truncations", "fs": 32}
//@ OBL {"name": "h07c_ts16_f5", "only_if_known": "F5r", "prop": "vp_h07c_ts16_f5", "assume": "va_h07c_ts16_f5", "in": 18, "out": 24, "unwind": 12, "unwind_fn": {"SkipValueImpl": 1}, "recursion": {"SkipValueImpl": 0}, "bounds": "every input of length <= 16 starting with C7 0C FF or C8 00 0C FF", "desc": "known finding F5 (reader side) pinned down: 12-byte timestamp decoded as seconds(64), nanoseconds(32) - nothing else tolerated", "fs": 32}
// vectors from tests/unit_tests/msgpack_tests/msgpack_reader_tests.cpp
//@ VEC * 0200d080000000000000000000000000000000
//@ VEC * 0300d1ffce0000000000000000000000000000
//@ VEC * 0900cfffffffffffffffff0000000000000000
//@ VEC * 0503ca4048f5c30000000000000000000000
//@ VEC * 0901cb400921fb5452455000000000000000
//@ VEC * 0403a3616263000000000000000000000000
//@ VEC * 0601d6ff102030400000000000000000000000
//@ VEC * 0303dc00100000000000000000000000000000
//@ VEC * 0101c1000000000000000000000000000000
//@ VEC * 0401929192c0000000000000000000000000
