//@ PROPERTY C10
//@ LINK common/binary_stream_reader.cpp
//@ CXXFLAGS -DBITSERIALIZER_VERIF_CHUNK_SIZE=8
// H10b: CBinaryStreamReader (src/common/binary_stream_reader.cpp - the only path by which the MsgPack stream reader touches the
// stream) refines "a cursor over the byte sequence": ONE operation with symbolic arguments from an ARBITRARY state that
// satisfies the representation invariant (inductive step: covers every history, hence every alignment of a value against the
// chunk boundary, compaction, refill, and seek-back after end-of-stream).  Chunk size 8 via the guarded hook
// BITSERIALIZER_VERIF_CHUNK_SIZE; stream content and length (<= 20) symbolic.
// Invariant I(state):  0 <= start <= end <= chunk,  end <= streamPos <= L,  buffer[0..end) == S[streamPos-end .. streamPos),
//   stream get position == streamPos,  flags in {good, eof, eof|fail},  eof => streamPos == L,  end == chunk or (streamPos == L and eof).
// Each obligation: assume I(pre); run the operation; assert result == reference cursor, I(post), GetPosition/IsEnd consistent.
// in[0]=L, in[1..21)=S, in[21]=start, in[22]=end, in[23]=streamPos, in[24]=flags, in[25]=arg
#define private public
#include "common/binary_stream_reader.h"
#undef private
#include "vh.h"
#include "vh_stream.h"
using BitSerializer::Detail::CBinaryStreamReader;
static constexpr size_t LMAX = 20, C = CBinaryStreamReader::chunk_size;
struct St { size_t L, s, e, sp; unsigned fl; size_t arg; const char* S; };
static inline St load(const unsigned char* in) { St t; t.L = in[0]; t.S = reinterpret_cast<const char*>(in + 1); t.s = in[21]; t.e = in[22]; t.sp = in[23]; t.fl = in[24]; t.arg = in[25]; return t; }
static inline bool inv(const St& t) {
	if (!(t.L <= LMAX && t.s <= t.e && t.e <= C && t.e <= t.sp && t.sp <= t.L)) return false;
	if (!(t.fl == 0 || t.fl == 2 || t.fl == 6)) return false;            // good, eofbit, eofbit|failbit
	if (t.fl != 0 && t.sp != t.L) return false;
	if (!(t.e == C || (t.sp == t.L && t.fl != 0))) return false;
	return true;
}
VH_EXPORT int va_h10b(const unsigned char* in) { return inv(load(in)); }
// builds the reader in state t (concrete construction, then the private members are overwritten)
struct Rig {
	vh::MemIStream is; CBinaryStreamReader r;
	Rig(const St& t) : is(t.S, t.L), r(is) {
		is.clear(); is.seekg(static_cast<std::streamoff>(t.sp));
		if (t.fl == 2) is.setstate(std::ios_base::eofbit); else if (t.fl == 6) is.setstate(std::ios_base::eofbit | std::ios_base::failbit);
		for (size_t i = 0; i < C; i++) r.mBuffer[i] = (i < t.e) ? t.S[t.sp - t.e + i] : 0;
		r.mStartDataPtr = r.mBuffer + t.s; r.mEndDataPtr = r.mBuffer + t.e; r.mStreamPos = t.sp;
	}
	bool post_ok(const St& t, size_t p) {
		St q = t; q.s = (size_t)(r.mStartDataPtr - r.mBuffer); q.e = (size_t)(r.mEndDataPtr - r.mBuffer); q.sp = r.mStreamPos;
		q.fl = (is.eof() ? 2u : 0u) | (is.fail() ? 4u : 0u) | (is.bad() ? 1u : 0u);
		if (!inv(q)) return false;
		if (is.pos() != q.sp) return false;
		for (size_t i = 0; i < C; i++) if (i < q.e && r.mBuffer[i] != t.S[q.sp - q.e + i]) return false;
		if (q.sp - (q.e - q.s) != p) return false;                       // abstract position
		return r.GetPosition() == p && r.IsEnd() == (p == t.L && q.fl != 0);
	}
};
enum { ReadByte, PeekByte, GotoNext, Solid, Chunks, SetPos };
template <int OP> static inline int prop(const unsigned char* in, unsigned char* out) {
	St t = load(in);
	if (!inv(t)) return 1;                     // (native runs on arbitrary bytes: outside the assumption)
	Rig g(t);
	verif_symbolic_phase();
	size_t p = t.sp - (t.e - t.s);            // abstract cursor before
	out[0] = (unsigned char)p;
	if constexpr (OP == ReadByte) {
		auto b = g.r.ReadByte();
		if (p < t.L) { if (!b || *b != t.S[p]) return 0; p++; } else if (b) return 0;
	} else if constexpr (OP == PeekByte) {
		auto b = g.r.PeekByte();
		if (p < t.L) { if (!b || *b != t.S[p]) return 0; } else if (b) return 0;
	} else if constexpr (OP == GotoNext) {
		g.r.GotoNextByte(); if (p < t.L) p++;
	} else if constexpr (OP == Solid) {
		size_t k = t.arg % 12;
		std::string_view v = g.r.ReadSolidBlock(k);
		if (k <= C && k > 0 && p + k <= t.L) {
			if (v.size() != k) return 0;
			for (size_t j = 0; j < 12; j++) if (j < k && v[j] != t.S[p + j]) return 0;
			p += k;
		} else if (!v.empty()) return 0;
	} else if constexpr (OP == Chunks) {
		size_t k = t.arg % 24;
		std::string_view v = g.r.ReadByChunks(k);
		size_t avail = t.L - p;
		if (avail == 0 || k == 0) { if (!v.empty()) return 0; }
		else {
			if (v.empty() || v.size() > k || v.size() > avail || v.size() > C) return 0;
			for (size_t j = 0; j < C; j++) if (j < v.size() && v[j] != t.S[p + j]) return 0;
			p += v.size();
		}
	} else {
		size_t q = t.arg % (LMAX + 2);
		bool ok = g.r.SetPosition(q);
		if (q <= t.L) { if (!ok) return 0; p = q; }
		else { out[1] = ok; return !ok; }        // beyond the end: must fail (state afterwards is "failed", not checked further)
	}
	out[1] = (unsigned char)p;
	return g.post_ok(t, p);
}
VH_EXPORT int vp_h10b_readbyte(const unsigned char* in, unsigned char* out) { return prop<ReadByte>(in, out); }
VH_EXPORT int vp_h10b_peekbyte(const unsigned char* in, unsigned char* out) { return prop<PeekByte>(in, out); }
VH_EXPORT int vp_h10b_gotonext(const unsigned char* in, unsigned char* out) { return prop<GotoNext>(in, out); }
VH_EXPORT int vp_h10b_solid(const unsigned char* in, unsigned char* out) { return prop<Solid>(in, out); }
VH_EXPORT int vp_h10b_chunks(const unsigned char* in, unsigned char* out) { return prop<Chunks>(in, out); }
VH_EXPORT int vp_h10b_setpos(const unsigned char* in, unsigned char* out) { return prop<SetPos>(in, out); }
//@ OBL {"name": "h10b_readbyte", "family": "h10b", "prop": "vp_h10b_readbyte", "assume": "va_h10b", "in": 26, "out": 8, "unwind": 14, "unwind_models": 10, "fs": 32, "cap_s": 900, "backends": ["default", "kissat"], "bounds": "chunk size 8 (hook), stream length <= 20, arbitrary pre-state satisfying the representation invariant", "desc": "one ReadByte from an arbitrary valid state: byte == S[pos], pos+1, invariant kept"}
//@ OBL {"name": "h10b_peekbyte", "family": "h10b", "prop": "vp_h10b_peekbyte", "assume": "va_h10b", "in": 26, "out": 8, "unwind": 14, "unwind_models": 10, "fs": 32, "cap_s": 900, "backends": ["default", "kissat"], "bounds": "chunk size 8 (hook), stream length <= 20, arbitrary pre-state satisfying the representation invariant", "desc": "one PeekByte"}
//@ OBL {"name": "h10b_gotonext", "family": "h10b", "prop": "vp_h10b_gotonext", "assume": "va_h10b", "in": 26, "out": 8, "unwind": 14, "unwind_models": 10, "fs": 32, "cap_s": 900, "backends": ["default", "kissat"], "bounds": "chunk size 8 (hook), stream length <= 20, arbitrary pre-state satisfying the representation invariant", "desc": "one GotoNextByte"}
//@ OBL {"name": "h10b_solid", "family": "h10b", "prop": "vp_h10b_solid", "assume": "va_h10b", "in": 26, "out": 8, "unwind": 14, "unwind_models": 10, "fs": 32, "cap_s": 900, "backends": ["default", "kissat"], "bounds": "chunk size 8 (hook), stream length <= 20, arbitrary pre-state satisfying the representation invariant", "desc": "one ReadSolidBlock(k), k = 0..11: block == S[pos..pos+k) or empty with the cursor unmoved"}
//@ OBL {"name": "h10b_chunks", "family": "h10b", "prop": "vp_h10b_chunks", "assume": "va_h10b", "in": 26, "out": 8, "unwind": 14, "unwind_models": 10, "fs": 32, "cap_s": 900, "backends": ["default", "kissat"], "bounds": "chunk size 8 (hook), stream length <= 20, arbitrary pre-state satisfying the representation invariant", "desc": "one ReadByChunks(k), k = 0..23: non-empty prefix of the remaining bytes"}
//@ OBL {"name": "h10b_setpos", "family": "h10b", "prop": "vp_h10b_setpos", "assume": "va_h10b", "in": 26, "out": 8, "unwind": 14, "unwind_models": 10, "fs": 32, "cap_s": 900, "backends": ["default", "kissat"], "bounds": "chunk size 8 (hook), stream length <= 20, arbitrary pre-state satisfying the representation invariant", "desc": "one SetPosition(q), q = 0..21: succeeds for every q <= L (also after end-of-stream was hit) and moves the cursor; fails beyond the end"}
//@ VEC * 0a3031323334353637383900000000000000000000020808000003
//@ VEC * 14303132333435363738396162636465666768696a0008100005
//@ VEC * 0530313233340000000000000000000000000000000505050603
