//@ PROPERTY C02
//@ LINK msgpack/msgpack_readers.cpp common/binary_stream_reader.cpp
//@ MODELDEF VERIF_STRLEN_ZERO
//@ OVERRIDE _ZN13BitSerializer7Convert6Detail2ToImcSaIcELi0EEEvRKT_RNSt7__cxx1112basic_stringIT0_St11char_traitsIS9_ET1_EE
// C02 (no input can crash / hang / run into UB): MsgPack skipping.  The obligations of C05_skip.cpp are re-decided here for the safety reading of
// their verdict: the inputs are arbitrary within the bound, every loop is unwound with --unwinding-assertions (termination within the
// bound), CBMC instruments every dereference / array access of the encoded real code, the IR carries explicit ubsan trap checks
// (signed overflow, shifts, division, float casts, bounds), an exception that is not derived from std::exception yields outcome NON_STD
// which no oracle accepts, and std::terminate / noexcept violations are assertions of the exception lowering.
#include "C05_skip.cpp"
//@ OBL {"name": "h02_h05b_array", "prop": "vp_h05b_array", "assume": "va_h05b", "in": 8, "out": 16, "unwind": 8, "unwind_fn": {"SkipValueImpl": 1}, "recursion": {"SkipValueImpl": 0}, "cap_s": 900, "bounds": "fixarray(3) of one-byte elements of every kind among fixint / negative fixint / nil / bool / empty str / empty array / empty map, Skip policies", "desc": "[C02 safety reading] array scope: skipped elements keep their slot untouched and report false, others load into their own slot, IsEnd after 3 requests, following data intact - here: terminates within the unwinding bound, no out-of-bounds access / UB (CBMC memory-safety and ubsan-trap assertions on the encoded real code), any exception is derived from std::exception", "fs": 32, "tier": "quick"}
//@ OBL {"name": "h02_h05a_long", "prop": "vp_h05a_long", "in": 8, "out": 8, "unwind": 8, "unwind_models": 310, "unwind_fn": {"SkipValueImpl": 1, "vp_h05a_long": 310}, "recursion": {"SkipValueImpl": 0}, "cap_s": 900, "bounds": "str8 / bin8 / str16 / bin16 with every length 0..300 (constant payload) followed by a sentinel", "desc": "[C02 safety reading] skipping a mismatching long string/binary consumes header + payload exactly; the sentinel is read intact - here: terminates within the unwinding bound, no out-of-bounds access / UB (CBMC memory-safety and ubsan-trap assertions on the encoded real code), any exception is derived from std::exception", "tier": "quick"}
//@ VEC * 0100c00000000000
//@ VEC * 03009201c0000000
//@ VEC * 0500a3414243440000
//@ VEC * 01c0a00500000000
//@ VEC * 03c4010900000000
