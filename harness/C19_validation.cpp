//@ PROPERTY C19
//@ IR2C --store-hook
//@ STUB _ZSt8to_charsPcS_d _ZSt8to_charsPcS_f
// C19: the operations of C17_validation.cpp re-decided with the store instrumentation (see C19_enum_utf.cpp for the argument): no store inside
// the operation window hits a mutable module-level object of the linked code, for every input within the bound.
#include "C17_validation.cpp"
//@ OBL {"name": "h19_h17a_range_i32", "prop": "vp_h17a_range_i32", "in": 25, "out": 8, "unwind": 4, "bounds": "every int32 value / min / max, both loaded states", "desc": "[C19 no-shared-write reading] Range<int32>: inclusive bounds, passes when absent", "tier": "quick"}
//@ OBL {"name": "h19_h17b_split", "prop": "vp_h17b_split", "in": 8, "out": 8, "unwind": 6, "fs": 32, "bounds": "three validators with every combination of verdicts for the loaded / absent case, symbolic loaded flag and value", "desc": "[C19 no-shared-write reading] SplitAndSerialize: recorded errors == failing validators in declaration order under <path>/<key>; value loaded regardless", "tier": "quick"}
//@ VEC * 0105000000010000000a000000
//@ VEC * 00ffffffffffffffff0000000000000000ffffffffffffffff00
