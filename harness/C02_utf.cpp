//@ PROPERTY C02
// C02 (no input can crash / hang / run into UB): UTF decoders on arbitrary code units.  The obligations of C12_illformed.cpp are re-decided here for the safety reading of
// their verdict: the inputs are arbitrary within the bound, every loop is unwound with --unwinding-assertions (termination within the
// bound), CBMC instruments every dereference / array access of the encoded real code, the IR carries explicit ubsan trap checks
// (signed overflow, shifts, division, float casts, bounds), an exception that is not derived from std::exception yields outcome NON_STD
// which no oracle accepts, and std::terminate / noexcept violations are assertions of the exception lowering.
#include "C12_illformed.cpp"
//@ OBL {"name": "h02_h12a_8to16_throw", "prop": "vp_h12a_8to16_throw", "assume": "va_h12a_8to16", "in": 5, "out": 8, "unwind": 18, "bounds": "every UTF-8 byte string of length <= 4", "desc": "[C02 safety reading] Utf8::Decode -> UTF-16, ThrowError (T1) - here: terminates within the unwinding bound, no out-of-bounds access / UB (CBMC memory-safety and ubsan-trap assertions on the encoded real code), any exception is derived from std::exception", "unwind_fn": {"BitSerializer": 6, "ref": 6}, "tier": "quick"}
//@ OBL {"name": "h02_h12a_8to32_skip", "prop": "vp_h12a_8to32_skip", "assume": "va_h12a_8to32", "in": 5, "out": 8, "unwind": 14, "bounds": "every UTF-8 byte string of length <= 4", "desc": "[C02 safety reading] Utf8::Decode -> UTF-32, Skip (S1-S6) - here: terminates within the unwinding bound, no out-of-bounds access / UB (CBMC memory-safety and ubsan-trap assertions on the encoded real code), any exception is derived from std::exception", "unwind_fn": {"BitSerializer": 6, "ref": 6}, "tier": "quick"}
//@ OBL {"name": "h02_h12b_16to8_throw", "prop": "vp_h12b_16to8_throw", "assume": "va_h12b_16to8", "in": 7, "out": 8, "unwind": 22, "bounds": "every sequence of <= 3 UTF-16 units", "desc": "[C02 safety reading] Utf16::Decode -> UTF-8 (Utf8::Encode), ThrowError (T1) - here: terminates within the unwinding bound, no out-of-bounds access / UB (CBMC memory-safety and ubsan-trap assertions on the encoded real code), any exception is derived from std::exception", "unwind_fn": {"BitSerializer": 5, "ref": 5}, "tier": "quick"}
//@ OBL {"name": "h02_h12b_16to32_skip", "prop": "vp_h12b_16to32_skip", "assume": "va_h12b_16to32", "in": 7, "out": 8, "unwind": 13, "bounds": "every sequence of <= 3 UTF-16 units", "desc": "[C02 safety reading] Utf16::Decode -> UTF-32, Skip (S1-S6) - here: terminates within the unwinding bound, no out-of-bounds access / UB (CBMC memory-safety and ubsan-trap assertions on the encoded real code), any exception is derived from std::exception", "unwind_fn": {"BitSerializer": 5, "ref": 5}, "tier": "quick"}
//@ OBL {"name": "h02_h12c_32to8_throw", "prop": "vp_h12c_32to8_throw", "assume": "va_h12c_32to8", "in": 9, "out": 8, "unwind": 18, "bounds": "every sequence of <= 2 UTF-32 units (all 2^32 values each)", "desc": "[C02 safety reading] Utf32::Decode -> UTF-8, ThrowError - here: terminates within the unwinding bound, no out-of-bounds access / UB (CBMC memory-safety and ubsan-trap assertions on the encoded real code), any exception is derived from std::exception", "unwind_fn": {"BitSerializer": 4, "ref": 4}, "tier": "quick"}
//@ OBL {"name": "h02_h12c_32to16_skip", "prop": "vp_h12c_32to16_skip", "assume": "va_h12c_32to16", "in": 9, "out": 8, "unwind": 14, "bounds": "every sequence of <= 2 UTF-32 units", "desc": "[C02 safety reading] Utf32::Decode -> UTF-16, Skip - here: terminates within the unwinding bound, no out-of-bounds access / UB (CBMC memory-safety and ubsan-trap assertions on the encoded real code), any exception is derived from std::exception", "unwind_fn": {"BitSerializer": 4, "ref": 4}, "tier": "quick"}
//@ VEC * 0441e282ac00
//@ VEC * 04f09f9880
//@ VEC * 04f7ffbfbf
//@ VEC * 03eda080
//@ VEC * 02c080
//@ VEC * 0300d800e0
//@ VEC * 0300d800dc41
//@ VEC * 0200d8000000e00000
//@ VEC * 02ffff1000410000
