//@ PROPERTY C09
//@ LINK csv/csv_readers.cpp
//@ MODELDEF VERIF_STRLEN_ZERO
//@ OVERRIDE _ZN13BitSerializer7Convert6Detail2ToImcSaIcELi0EEEvRKT_RNSt7__cxx1112basic_stringIT0_St11char_traitsIS9_ET1_EE
//@ IR2C --cut CCsvStreamReader|CEncodedStreamReader
// C09 (RFC 4180), the two leaf computations everything else in the CSV codec builds on - decided on their own because the complete
// writer / reader (rows assembled in growing std::string / std::vector members at symbolic positions) does not close (DESIGN 0.5):
//  h09k_escape  WriteEscapedValue (src/csv/csv_writers.cpp, internal linkage: that translation unit is included here) for EVERY
//               field content of <= 4 bytes and each of the five separators: an independent RFC 4180 field parser
//               (harness/ref/rfc4180.h) recovers exactly the original bytes from the output, the output is one field (the whole
//               output is consumed), and fields without separator / quote / CR / LF are written verbatim.
//  h09k_row     CCsvStringReader (no header) on EVERY text of <= 4 bytes that is ONE conformant record by the reference parser
//               (optional quoting, CRLF / LF / no final line break): same number of cells, same cell contents, end reached.
#include "bitserializer/csv_archive.h"
#define private public
#include "csv/csv_readers.h"
#undef private
#include "csv/csv_writers.cpp"
#include "vh.h"
#include "ref/rfc4180.h"
using namespace BitSerializer;
using namespace BitSerializer::Csv::Detail;
static const char SEPS[5] = { ',', ';', '\t', ' ', '|' };
VH_EXPORT int vp_h09k_escape(const unsigned char* in, unsigned char* out) {
	const char sep = SEPS[in[0] % 5];
	size_t n = in[1] % 5; const char* v = reinterpret_cast<const char*>(in + 2);
	std::string o; o.reserve(24); verif_nogrow(&o);
	verif_symbolic_phase();
	WriteEscapedValue(std::string_view(v, n), o, sep);
	out[0] = (unsigned char)o.size();
	for (size_t i = 0; i < 10; i++) out[1 + i] = i < o.size() ? (unsigned char)o[i] : 0;
	const unsigned char* p = reinterpret_cast<const unsigned char*>(o.data()); size_t pos = 0;
	csvref::Field f[2];
	int nf = csvref::parse_record(p, o.size(), &pos, (unsigned char)sep, f, 2);
	if (nf != 1 || pos != o.size() || f[0].n != n) return 0;                 // exactly one field, everything consumed
	bool special = false;
	for (size_t i = 0; i < 4; i++) if (i < n) { if (f[0].b[i] != (unsigned char)v[i]) return 0; if (v[i] == sep || v[i] == '"' || v[i] == '\r' || v[i] == '\n') special = true; }
	if (!special) { if (o.size() != n) return 0; for (size_t i = 0; i < 4; i++) if (i < n && o[i] != v[i]) return 0; }   // verbatim
	return 1;
}
static constexpr size_t TN = 4;
// precondition of h09k_row: the text is exactly one conformant record
static inline int ref_row(const unsigned char* in, csvref::Field* f, unsigned char* sep_out) {
	const unsigned char sep = (unsigned char)SEPS[in[0] % 5]; size_t n = in[1] % (TN + 1); size_t pos = 0;
	*sep_out = sep;
	if (n == 0) return -1;
	int nf = csvref::parse_record(in + 2, n, &pos, sep, f, 7);
	if (nf < 1 || pos != n) return -1;
	// (a field that contains a bare CR inside quotes is fine; a bare CR outside quotes is malformed by the reference already)
	return nf;
}
VH_EXPORT int va_h09k_row(const unsigned char* in) { csvref::Field f[7]; unsigned char s; return ref_row(in, f, &s) >= 1; }
VH_EXPORT int vp_h09k_row(const unsigned char* in, unsigned char* out) {
	csvref::Field f[7]; unsigned char sep;
	int nf = ref_row(in, f, &sep);
	if (nf < 1) return 1;
	size_t n = in[1] % (TN + 1);
	CCsvStringReader r(std::string_view(reinterpret_cast<const char*>(in + 2), n), false, (char)sep);
	r.mRowValuesMeta.reserve(8); r.mTempValueBuffer.reserve(16); verif_nogrow(&r.mTempValueBuffer);
	verif_symbolic_phase();
	size_t cells = 0; bool same = true;
	int rc = vh::outcome([&] {
		if (!r.ParseNextRow()) { cells = 99; return; }
		cells = r.mRowValuesMeta.size();
		for (size_t c = 0; c < 5; c++) if (c < cells && c < (size_t)nf) {
			std::string_view sv; r.ReadValue(sv);
			if (sv.size() != f[c].n) same = false;
			for (size_t i = 0; i < TN; i++) if (i < sv.size() && i < f[c].n && (unsigned char)sv[i] != f[c].b[i]) same = false;
		}
	});
	out[0] = (unsigned char)rc; out[1] = (unsigned char)cells; out[2] = (unsigned char)nf; out[3] = same;
	return rc == vh::OK && cells == (size_t)nf && same && r.IsEnd();
}
//@ OBL {"name": "h09k_escape", "prop": "vp_h09k_escape", "in": 8, "out": 16, "unwind": 12, "unwind_models": 8, "fs": 32, "cap_s": 1800, "backends": ["default", "kissat"], "bounds": "every field content of length <= 4 (all byte values), separators , ; TAB SPACE |", "desc": "WriteEscapedValue: an independent RFC 4180 parser recovers the field exactly; plain fields verbatim"}
//@ OBL {"name": "h09k_row", "prop": "vp_h09k_row", "assume": "va_h09k_row", "in": 8, "out": 16, "unwind": 9, "unwind_models": 8, "fs": 32, "cap_s": 3600, "mem_gb": 40, "tier": "open", "backends": ["default", "kissat"], "bounds": "every text of length 1..4 that is one RFC 4180 record (reference parser), five separators, no header", "desc": "CCsvStringReader::ParseNextRow + ReadValue == reference cells (count, contents), input consumed"}
//@ VEC * 0003612c62000000
//@ VEC * 0004226122000000
//@ VEC * 0105613b620d0a00
//@ VEC * 0005226122226200
