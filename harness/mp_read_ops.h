// Shared by C07 (reader vs reference) and C10 (memory vs stream reader): one read operation on symbolic bytes.
#pragma once
#include "mp_common.h"
#include <limits>
namespace mpo {
using namespace mpc;
static constexpr size_t N = 9;
struct In { size_t n; unsigned pol; const unsigned char* b; const unsigned char* prev; };
static inline In load(const unsigned char* in) { In r; r.n = in[0] <= N ? in[0] : N; r.pol = in[1] & 3; r.b = in + 2; r.prev = in + 12; return r; }
struct Res { int rc; size_t pos; unsigned char val[16]; };
enum Op { OpScalar, OpStr, OpArray, OpMap, OpBin, OpTs, OpSkip, OpType };
template <class R, class T> static inline void do_scalar(R& r, const In& v, Res& res) {
	T val{}; if constexpr (!std::is_same_v<T, std::nullptr_t>) val = vh::rd<T>(v.prev);
	res.rc = outcome([&] { return r.ReadValue(val); });
	res.pos = r.GetPosition();
	for (int i = 0; i < 16; i++) res.val[i] = 0;
	if constexpr (!std::is_same_v<T, std::nullptr_t>) vh::wr(res.val, val);
}
template <class R> static inline void do_other(R& r, Op op, Res& res) {
	size_t sz = 0x5555; std::string_view sv("prev", 4); CBinTimestamp ts(0x1234, 77); int vt = -1;
	res.rc = outcome([&] {
		switch (op) {
		case OpStr: return r.ReadValue(sv);
		case OpArray: return r.ReadArraySize(sz);
		case OpMap: return r.ReadMapSize(sz);
		case OpBin: return r.ReadBinarySize(sz);
		case OpTs: return r.ReadValue(ts);
		case OpSkip: r.SkipValue(); return true;
		default: vt = (int)r.ReadValueType(); return true;
		}
	});
	res.pos = r.GetPosition();
	for (int i = 0; i < 16; i++) res.val[i] = 0;
	if (op == OpStr) { vh::wr(res.val, (uint64_t)sv.size()); for (size_t i = 0; i < 7 && i < sv.size(); i++) res.val[8 + i] = (unsigned char)sv[i]; }
	else if (op == OpTs) { vh::wr(res.val, ts.Seconds); vh::wr(res.val + 8, ts.Nanoseconds); }
	else if (op == OpType) vh::wr(res.val, vt);
	else vh::wr(res.val, (uint64_t)sz);
}
}
