//@ PROPERTY C19
//@ IR2C --store-hook
//@ LINK msgpack/msgpack_readers.cpp common/binary_stream_reader.cpp
//@ MODELDEF VERIF_STRLEN_ZERO
//@ OVERRIDE _ZN13BitSerializer7Convert6Detail2ToImcSaIcELi0EEEvRKT_RNSt7__cxx1112basic_stringIT0_St11char_traitsIS9_ET1_EE
// C19: the operations of C07_reader.cpp re-decided with the store instrumentation (see C19_enum_utf.cpp for the argument): no store inside
// the operation window hits a mutable module-level object of the linked code, for every input within the bound.
#include "C07_reader.cpp"
//@ OBL {"assume": "va_h07", "in": 20, "out": 24, "unwind": 12, "bounds": "every byte string of length <= 9 whose first byte is not an array/map header, both policies symbolic, previous target value symbolic", "name": "h19_h07a_i16", "prop": "vp_h07a_i16", "desc": "[C19 no-shared-write reading] CMsgPackStringReader::ReadValue(int16_t&) == reference decoder (value / policy / parsing error / position)", "recursion": {"SkipValueImpl": 0, "total_len": 1}, "unwind_fn": {"SkipValueImpl": 1}, "fs": 32, "tier": "quick"}
//@ OBL {"assume": "va_h07", "in": 20, "out": 24, "unwind": 12, "bounds": "every byte string of length <= 9 whose first byte is not an array/map header, both policies symbolic, previous target value symbolic", "name": "h19_h07a_f64", "prop": "vp_h07a_f64", "desc": "[C19 no-shared-write reading] CMsgPackStringReader::ReadValue(double&) == reference decoder (value / policy / parsing error / position)", "recursion": {"SkipValueImpl": 0, "total_len": 1}, "unwind_fn": {"SkipValueImpl": 1}, "fs": 32, "tier": "quick"}
//@ OBL {"assume": "va_h07", "in": 20, "out": 24, "unwind": 12, "bounds": "every byte string of length <= 9 whose first byte is not an array/map header, both policies symbolic, previous target value symbolic", "name": "h19_h07b_str", "prop": "vp_h07b_str", "desc": "[C19 no-shared-write reading] length header reader (str): fix/8/16/32 forms, declared length vs available bytes", "recursion": {"SkipValueImpl": 0, "total_len": 1}, "unwind_fn": {"SkipValueImpl": 1}, "fs": 32, "tier": "quick"}
//@ OBL {"assume": "va_h07", "in": 20, "out": 24, "unwind": 12, "bounds": "every byte string of length <= 9 whose first byte is not an array/map header, both policies symbolic, previous target value symbolic", "name": "h19_h07c_ts", "prop": "vp_h07c_ts", "desc": "[C19 no-shared-write reading] ReadValue(CBinTimestamp&): fixext4/fixext8/ext8(12) type -1 per spec", "recursion": {"SkipValueImpl": 0, "total_len": 1}, "unwind_fn": {"SkipValueImpl": 1}, "mem_gb": 28, "fs": 32, "tier": "quick"}
//@ VEC * 0200d080000000000000000000000000000000
//@ VEC * 0300d1ffce0000000000000000000000000000
//@ VEC * 0900cfffffffffffffffff0000000000000000
//@ VEC * 0503ca4048f5c30000000000000000000000
//@ VEC * 0901cb400921fb5452455000000000000000
//@ VEC * 0403a3616263000000000000000000000000
//@ VEC * 0601d6ff102030400000000000000000000000
//@ VEC * 0303dc00100000000000000000000000000000
//@ VEC * 0101c1000000000000000000000000000000
//@ VEC * 0401929192c0000000000000000000000000
