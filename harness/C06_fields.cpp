//@ PROPERTY C06
// H06f: "map headers equal to the number of entries actually written ... field counting incl. base classes and conditional fields".
// The map header of an object saved to a binary archive is FieldsCountVisitor's result (CountMapObjectFields, object_traits.h); the
// entries actually written are the `archive << KeyValue(...)` executions of the same Serialize() methods on the real scope, where a
// BaseObject<> is expanded in place.  For a family of classes with CONDITIONAL fields (each of the 9 fields is serialized or not
// according to a symbolic flag), own fields before / between / after the bases, two bases, and a base that has a base itself:
//   CountMapObjectFields(archive, obj) == number of key/value pairs a scope receives from obj.Serialize(scope).
#include "vh.h"
#include "bitserializer/bit_serializer.h"
using namespace BitSerializer;
struct Root { unsigned f = 0; int r1 = 1, r2 = 2;
	template <class A> void Serialize(A& a) { if (f & 1) a << KeyValue("r1", r1); if (f & 2) a << KeyValue("r2", r2); } };
struct Mid : Root { int m1 = 3, m2 = 4;
	template <class A> void Serialize(A& a) { if (f & 4) a << KeyValue("m1", m1); a << BaseObject<Root>(*this); if (f & 8) a << KeyValue("m2", m2); } };
struct Side { unsigned g = 0; int s1 = 5, s2 = 6;
	template <class A> void Serialize(A& a) { if (g & 16) a << KeyValue("s1", s1); if (g & 32) a << KeyValue("s2", s2); } };
struct Leaf : Mid, Side { int x = 7, y = 8, z = 9;
	template <class A> void Serialize(A& a) {
		if (f & 64) a << KeyValue("x", x);
		a << BaseObject<Mid>(*this);
		if (f & 128) a << KeyValue("y", y);
		a << BaseObject<Side>(*this);
		if (f & 256) a << KeyValue("z", z);
	} };
// the writing side: a scope that receives the pairs (bases expanded in place, as Serialize(archive, BaseObject<T>) does)
struct PairSink {
	size_t pairs = 0;
	template <class T> PairSink& operator<<(T&&) { pairs++; return *this; }
	template <class B> PairSink& operator<<(BaseObject<B>&& b) { b.Object.Serialize(*this); return *this; }
};
struct BinArchive {                 // what CountMapObjectFields needs to know about the archive
	static constexpr ArchiveType archive_type = ArchiveType::MsgPack;
	using key_type = std::string;
	static constexpr bool is_binary = true;
	static constexpr SerializeMode GetMode() noexcept { return SerializeMode::Save; }
	static constexpr bool IsSaving() noexcept { return true; }
	static constexpr bool IsLoading() noexcept { return false; }
};
VH_EXPORT int vp_h06f_count(const unsigned char* in, unsigned char* out) {
	unsigned flags = vh::rd<uint16_t>(in) & 0x1ff;
	Leaf obj; obj.f = flags; obj.g = flags;
	BinArchive ar;
	size_t header = CountMapObjectFields(ar, obj);
	PairSink sink; obj.Serialize(sink);
	out[0] = (unsigned char)header; out[1] = (unsigned char)sink.pairs;
	size_t want = 0; for (int i = 0; i < 9; i++) want += (flags >> i) & 1;
	return header == sink.pairs && header == want;
}
VH_EXPORT int vp_h06f_count_mid(const unsigned char* in, unsigned char* out) {
	unsigned flags = in[0] & 0xf;
	Mid obj; obj.f = flags;
	BinArchive ar;
	size_t header = CountMapObjectFields(ar, obj);
	PairSink sink; obj.Serialize(sink);
	out[0] = (unsigned char)header; out[1] = (unsigned char)sink.pairs;
	return header == sink.pairs && header == (size_t)__builtin_popcount(flags);
}
//@ OBL {"name": "h06f_count", "prop": "vp_h06f_count", "in": 2, "out": 8, "unwind": 10, "bounds": "class with two bases (one of them with its own base), 9 conditional fields in every on/off combination, own fields before, between and after the bases", "desc": "CountMapObjectFields (the map header) == key/value pairs actually produced by Serialize()"}
//@ OBL {"name": "h06f_count_mid", "prop": "vp_h06f_count_mid", "in": 2, "out": 8, "unwind": 10, "bounds": "single inheritance, own field before and after the base, 4 conditional fields", "desc": "CountMapObjectFields == pairs produced"}
//@ VEC * ff01
//@ VEC * 0000
//@ VEC * 4500
