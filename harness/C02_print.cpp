//@ PROPERTY C02
// C02 (no input can crash / hang / run into UB): ISO printer buffer safety for every year.  The obligations of C14_chrono_print.cpp are re-decided here for the safety reading of
// their verdict: the inputs are arbitrary within the bound, every loop is unwound with --unwinding-assertions (termination within the
// bound), CBMC instruments every dereference / array access of the encoded real code, the IR carries explicit ubsan trap checks
// (signed overflow, shifts, division, float casts, bounds), an exception that is not derived from std::exception yields outcome NON_STD
// which no oracle accepts, and std::terminate / noexcept violations are assertions of the exception lowering.
#include "C14_chrono_print.cpp"
//@ OBL {"name": "h02_h14d_print", "prop": "vp_h14d_print", "in": 18, "out": 16, "unwind": 12, "unwind_fn": {"VA9_snprintf": 50, "verif_ndigits": 22}, "bounds": "every int64 year, every two-digit field, optional fraction 0..999999999", "desc": "[C02 safety reading] PrintIsoUtc stays inside its UtcBufSize buffer for every year value (CBMC bounds checks on the real stack buffer) and ends with Z - here: terminates within the unwinding bound, no out-of-bounds access / UB (CBMC memory-safety and ubsan-trap assertions on the encoded real code), any exception is derived from std::exception", "tier": "quick"}
//@ VEC * 0000000000000000
//@ VEC * 082b000000000000
//@ VEC * ffffffffffffffff
//@ VEC * d0070c1f173b3b00
//@ VEC * d007021d00000000
//@ VEC * 6c07021d00000000
//@ VEC * 70fe030100000000
