//@ PROPERTY C14
// C14: ISO-8601 text of time points / durations (convert_chrono.h) and the MsgPack binary timestamp form (bin_timestamp.h).
//  h14a  To(time_point<D>, string&): the calendar fields handed to snprintf are THE proleptic Gregorian date/time of the
//        instant (checked against an independent day-count reference, harness/ref/calendar.h), 'Z' terminated, '+' iff year>=10000
//  h14b  To(string_view, time_point<D>&): text rendered by the harness from symbolic fields parses to exactly the reference instant
//  h14c  print -> parse round trip through the real text (exact digit rendering), years -9999..9999
//  h14d  buffer safety: every int64 count of days/hours/seconds prints inside the 48-byte buffer or throws (never writes outside)
//  h14f  durations: print -> parse identity
//  h14g  time_point -> CBinTimestamp -> time_point identity
#include "vh.h"
#include "ref/calendar.h"
#include "chrono_common.h"
#include <string>
#include <chrono>
#include "bitserializer/convert.h"
#include "bitserializer/serialization_detail/bin_timestamp.h"
using namespace BitSerializer;
typedef chr::duration<int64_t, std::ratio<86400>> days_t;

template <class D> static inline int print(const tp_t<D>& tp, std::string& s) { return vh::outcome([&] { Convert::Detail::To(tp, s); }); }

// ---- h14a: calendar correctness of printing.  in[0..8) = count of D since epoch
template <class D> static inline int prop_print(const unsigned char* in, unsigned char* out) {
	int64_t cnt = vh::rd<int64_t>(in);
	std::string s; s.reserve(64); verif_nogrow(&s);
	verif_snprintf_mode(1);
	verif_symbolic_phase();
	int rc = print(tp_t<D>(D(cnt)), s);
	long p[6]; vh::iso_parts(s.data(), s.size(), p);
	out[0] = (unsigned char)rc; vh::wr(out + 1, (int64_t)p[0]); out[9] = (unsigned char)p[1]; out[10] = (unsigned char)p[2]; out[11] = (unsigned char)p[3]; out[12] = (unsigned char)p[4]; out[13] = (unsigned char)p[5];
	if (rc != vh::OK) return 0;
	// valid calendar date and time of day
	if (!cal::valid(p[0], (int)p[1], (int)p[2]) || p[3] < 0 || p[3] > 23 || p[4] < 0 || p[4] > 59 || p[5] < 0 || p[5] > 59) return 0;
	// the instant it denotes (in units of D, truncated to whole seconds) is the input
	constexpr int64_t per_day = 86400 * D::period::den / D::period::num;       // units of D per day (D in {days,h,min,s,ms})
	constexpr int64_t per_sec = D::period::den >= D::period::num ? D::period::den / D::period::num : 0;
	int64_t days = cal::days_from_civil(p[0], (int)p[1], (int)p[2]);
	int64_t tod = p[3] * 3600 + p[4] * 60 + p[5];
	if constexpr (D::period::num >= 86400) { if (tod != 0 || days != cnt) return 0; }
	else if constexpr (per_sec == 0) {      // hours / minutes: units of D::period::num seconds
		constexpr int64_t secs = D::period::num;
		if (tod % secs != 0 || days * per_day + tod / secs != cnt) return 0;
	} else {
		int64_t whole = days * per_day + tod * per_sec;         // start of that second, in D
		if (!(cnt >= whole && cnt - whole < per_sec)) return 0;
	}
	// text frame: optional '+', trailing 'Z'
	if (s.empty() || s[s.size() - 1] != 'Z') return 0;
	if ((s[0] == '+') != (p[0] >= 10000)) return 0;
	return 1;
}
VH_EXPORT int va_fields(const unsigned char* in) { return fields_ok(in); }
// ---- h14c: round trip through the real text
template <class D> static inline int prop_roundtrip(const unsigned char* in, unsigned char* out) {
	int64_t cnt = vh::rd<int64_t>(in);
	std::string s; s.reserve(64); verif_nogrow(&s);
	verif_snprintf_mode(0);
	verif_symbolic_phase();
	int rc = print(tp_t<D>(D(cnt)), s);
	tp_t<D> back(D(777));
	int rc2 = rc == vh::OK ? vh::outcome([&] { Convert::Detail::To(std::string_view(s.data(), s.size()), back); }) : -1;
	out[0] = (unsigned char)rc; out[1] = (unsigned char)rc2; vh::wr(out + 2, back.time_since_epoch().count());
	return rc == vh::OK && rc2 == vh::OK && back.time_since_epoch().count() == cnt;
}
// ---- h14d: buffer safety over the full range (memory safety is checked by CBMC on the 48-byte stack buffer)
template <class D> static inline int prop_safe(const unsigned char* in, unsigned char* out) {
	int64_t cnt = vh::rd<int64_t>(in);
	std::string s; s.reserve(64); verif_nogrow(&s);
	verif_snprintf_mode(1);
	verif_symbolic_phase();
	int rc = print(tp_t<D>(D(cnt)), s);
	out[0] = (unsigned char)rc; out[1] = (unsigned char)s.size();
	return (rc == vh::OK && s.size() >= 20 && s.size() <= 47) || rc == vh::OUT_OF_RANGE || rc == vh::STD_EXCEPTION;
}
// ---- h14d': PrintIsoUtc on ARBITRARY parts (any int64 year - more than any calendar computation can produce), real buffer size
VH_EXPORT int vp_h14d_print(const unsigned char* in, unsigned char* out) {
	Convert::Detail::CDateTimeParts<chr::nanoseconds> utc;
	utc.Year = vh::rd<int64_t>(in); utc.Month = in[8] % 100; utc.Day = in[9] % 100; utc.Hour = in[10] % 100; utc.Min = in[11] % 100; utc.Sec = in[12] % 100;
	if (in[13] & 1) utc.SecFractions = chr::nanoseconds(vh::rd<uint32_t>(in + 14) % 1000000000u);
	char buf[Convert::Detail::UtcBufSize];
	verif_snprintf_mode(1);
	char* end = nullptr;
	int rc = vh::outcome([&] { end = Convert::Detail::PrintIsoUtc(utc, buf, buf + sizeof(buf)); });
	out[0] = (unsigned char)rc; out[1] = (unsigned char)(end ? end - buf : 0);
	if (rc == vh::OK) return end > buf && end <= buf + sizeof(buf) && end[-1] == 'Z';
	return rc == vh::STD_EXCEPTION;     // runtime_error("insufficient buffer") - never needed for 48 bytes, but allowed
}
// ---- h14f: durations
template <class D> static inline int prop_duration(const unsigned char* in, unsigned char* out) {
	int64_t cnt = vh::rd<int64_t>(in);
	std::string s; s.reserve(64); verif_nogrow(&s);
	verif_symbolic_phase();
	int rc = vh::outcome([&] { Convert::Detail::To(D(cnt), s); });
	D back(777);
	int rc2 = rc == vh::OK ? vh::outcome([&] { Convert::Detail::To(std::string_view(s.data(), s.size()), back); }) : -1;
	out[0] = (unsigned char)rc; out[1] = (unsigned char)rc2; vh::wr(out + 2, (int64_t)back.count()); out[10] = (unsigned char)s.size();
	if (!(rc == vh::OK && rc2 == vh::OK && back.count() == cnt)) return 0;
	// shape: [-]P...
	size_t i = 0; if (cnt < 0) { if (s[0] != '-') return 0; i = 1; }
	return s.size() > i && s[i] == 'P';
}
// ---- h14g: binary timestamp round trip
template <class D> static inline int prop_bin(const unsigned char* in, unsigned char* out) {
	int64_t cnt = vh::rd<int64_t>(in);
	BitSerializer::Detail::CBinTimestamp ts;
	tp_t<D> back(D(777));
	int rc = vh::outcome([&] { BitSerializer::Detail::To(tp_t<D>(D(cnt)), ts); });
	int rc2 = rc == vh::OK ? vh::outcome([&] { BitSerializer::Detail::To(ts, back); }) : -1;
	out[0] = (unsigned char)rc; out[1] = (unsigned char)rc2; vh::wr(out + 2, back.time_since_epoch().count());
	if (rc == vh::OUT_OF_RANGE) return D::period::num > 1;           // only coarse units can exceed the int64 seconds of the timestamp
	return rc == vh::OK && rc2 == vh::OK && back.time_since_epoch().count() == cnt;
}
// F16: signed-overflow UB in the date arithmetic at the extremes of int64 day/hour/second counts (recorded, not repaired)
VH_EXPORT int vk_h14d(const unsigned char* in) { int64_t c = vh::rd<int64_t>(in); return (c > (INT64_MAX >> 1) || c < -(INT64_MAX >> 1)) ? 1 : 0; }
#define E(name, body) VH_EXPORT int name(const unsigned char* in, unsigned char* out) { return body; }
E(vp_h14a_days, prop_print<days_t>(in, out)) E(vp_h14a_h, prop_print<chr::hours>(in, out)) E(vp_h14a_s, prop_print<chr::seconds>(in, out)) E(vp_h14a_ms, prop_print<chr::milliseconds>(in, out))
E(vp_h14b_s, prop_parse<chr::seconds>(in, out)) E(vp_h14b_days, prop_parse<days_t>(in, out)) E(vp_h14b_min, prop_parse<chr::minutes>(in, out)) E(vp_h14b_ns, prop_parse<chr::nanoseconds>(in, out))
E(vp_h14c_s, prop_roundtrip<chr::seconds>(in, out)) E(vp_h14c_days, prop_roundtrip<days_t>(in, out))
E(vp_h14d_days, prop_safe<days_t>(in, out)) E(vp_h14d_h, prop_safe<chr::hours>(in, out)) E(vp_h14d_s, prop_safe<chr::seconds>(in, out))
E(vp_h14f_s, prop_duration<chr::seconds>(in, out)) E(vp_h14f_ms, prop_duration<chr::milliseconds>(in, out)) E(vp_h14f_h, prop_duration<chr::hours>(in, out))
E(vp_h14g_ms, prop_bin<chr::milliseconds>(in, out)) E(vp_h14g_s, prop_bin<chr::seconds>(in, out)) E(vp_h14g_ns, prop_bin<chr::nanoseconds>(in, out)) E(vp_h14g_h, prop_bin<chr::hours>(in, out))
//@ OBL {"name": "h14a_days", "prop": "vp_h14a_days", "in": 8, "out": 16, "unwind": 8, "backends": ["kissat", "default"], "cap_s": 900, "cassume": ["RD64(in,0) < (1LL<<16) && RD64(in,0) > -(1LL<<16)"], "bounds": "every day number |z| < 2^16 (1790..2149: contains 1800/1900/2100 non-leap and 2000 leap century years)", "desc": "To(time_point<days>): fields == proleptic Gregorian date of the day number (independent reference)", "unwind_fn": {"VA9_snprintf": 50, "verif_ndigits": 22}}
//@ OBL {"name": "h14a_days_T", "prop": "vp_h14a_days", "in": 8, "out": 16, "unwind": 8, "backends": ["kissat", "default"], "cap_s": 3600, "cassume": ["RD64(in,0) < (1LL<<20) && RD64(in,0) > -(1LL<<20)"], "bounds": "every day number |z| < 2^20 (years -901..4840)", "desc": "To(time_point<days>): fields == proleptic Gregorian date of the day number (independent reference)", "unwind_fn": {"VA9_snprintf": 50, "verif_ndigits": 22}, "tier": "thorough", "supersedes": "h14a_days"}
//@ OBL {"name": "h14a_s", "prop": "vp_h14a_s", "in": 8, "out": 16, "unwind": 8, "backends": ["kissat", "default"], "cap_s": 900, "cassume": ["RD64(in,0) < (1LL<<24) && RD64(in,0) > -(1LL<<24)"], "bounds": "every second |t| < 2^24 (time-of-day split and day boundary; the calendar itself: h14a_days)", "desc": "To(time_point<seconds>): date and time of day", "unwind_fn": {"VA9_snprintf": 50, "verif_ndigits": 22}}
//@ OBL {"name": "h14a_s_T", "prop": "vp_h14a_s", "in": 8, "out": 16, "unwind": 8, "backends": ["kissat", "default"], "cap_s": 3600, "cassume": ["RD64(in,0) < (1LL<<36) && RD64(in,0) > -(1LL<<36)"], "bounds": "every second |t| < 2^36 (+-2177 years)", "desc": "To(time_point<seconds>): date and time of day", "unwind_fn": {"VA9_snprintf": 50, "verif_ndigits": 22}, "tier": "open", "supersedes": "h14a_s"}
//@ OBL {"name": "h14a_h", "prop": "vp_h14a_h", "in": 8, "out": 16, "unwind": 8, "backends": ["kissat", "default"], "cap_s": 3600, "cassume": ["RD64(in,0) < (1LL<<24) && RD64(in,0) > -(1LL<<24)"], "bounds": "every hour |t| < 2^24", "desc": "To(time_point<hours>)", "unwind_fn": {"VA9_snprintf": 50, "verif_ndigits": 22}, "tier": "thorough"}
//@ OBL {"name": "h14a_ms", "prop": "vp_h14a_ms", "in": 8, "out": 16, "unwind": 8, "backends": ["kissat", "default"], "cap_s": 3600, "cassume": ["RD64(in,0) < (1LL<<40) && RD64(in,0) > -(1LL<<40)"], "bounds": "every millisecond |t| < 2^40 (+-34 years)", "desc": "To(time_point<milliseconds>): whole-second part", "unwind_fn": {"VA9_snprintf": 50, "verif_ndigits": 22}, "tier": "open"}
//@ OBL {"name": "h14b_s", "prop": "vp_h14b_s", "in": 8, "out": 16, "unwind": 8, "backends": ["kissat", "default"], "cap_s": 900, "assume": "va_fields", "bounds": "years 1896..2104 (quick window; thorough: -9999..9999), every 00..99 value in the other fields", "desc": "To(string_view, time_point<seconds>&): exact instant (independent day-count reference), invalid_argument for impossible dates (incl. Feb 29 of non-leap years), out_of_range when not representable", "unwind_fn": {"VA9_snprintf": 50, "verif_ndigits": 22}, "cassume": ["RD16(in,0) >= 1896 && RD16(in,0) <= 2104"]}
//@ OBL {"name": "h14b_s_neg", "prop": "vp_h14b_s", "in": 8, "out": 16, "unwind": 8, "backends": ["kissat", "default"], "cap_s": 900, "assume": "va_fields", "bounds": "years -0404..-0396 (negative years around a 400-year boundary)", "desc": "To(string_view, time_point<seconds>&): exact instant (independent day-count reference), invalid_argument for impossible dates (incl. Feb 29 of non-leap years), out_of_range when not representable", "unwind_fn": {"VA9_snprintf": 50, "verif_ndigits": 22}, "cassume": ["RD16(in,0) >= -404 && RD16(in,0) <= -396"]}
//@ OBL {"name": "h14b_s_T", "prop": "vp_h14b_s", "in": 8, "out": 16, "unwind": 8, "backends": ["kissat", "default"], "cap_s": 3600, "assume": "va_fields", "bounds": "years -9999..9999, every two-digit value 00..99 in each other field (invalid ones must be rejected)", "desc": "To(string_view, time_point<seconds>&): exact instant (independent day-count reference), invalid_argument for impossible dates (incl. Feb 29 of non-leap years), out_of_range when not representable", "unwind_fn": {"VA9_snprintf": 50, "verif_ndigits": 22}, "tier": "open", "supersedes": "h14b_s"}
//@ OBL {"name": "h14b_days", "prop": "vp_h14b_days", "in": 8, "out": 16, "unwind": 8, "backends": ["kissat", "default"], "cap_s": 900, "assume": "va_fields", "bounds": "years 1896..2104 (quick window; thorough: -9999..9999), every 00..99 value in the other fields", "desc": "To(string_view, time_point<days>&): exact instant (independent day-count reference), invalid_argument for impossible dates (incl. Feb 29 of non-leap years), out_of_range when not representable", "unwind_fn": {"VA9_snprintf": 50, "verif_ndigits": 22}, "cassume": ["RD16(in,0) >= 1896 && RD16(in,0) <= 2104"]}
//@ OBL {"name": "h14b_days_T", "prop": "vp_h14b_days", "in": 8, "out": 16, "unwind": 8, "backends": ["kissat", "default"], "cap_s": 3600, "assume": "va_fields", "bounds": "years -9999..9999, every two-digit value 00..99 in each other field (invalid ones must be rejected)", "desc": "To(string_view, time_point<days>&): exact instant (independent day-count reference), invalid_argument for impossible dates (incl. Feb 29 of non-leap years), out_of_range when not representable", "unwind_fn": {"VA9_snprintf": 50, "verif_ndigits": 22}, "tier": "open", "supersedes": "h14b_days"}
//@ OBL {"name": "h14b_min_T", "prop": "vp_h14b_min", "in": 8, "out": 16, "unwind": 8, "backends": ["kissat", "default"], "cap_s": 3600, "assume": "va_fields", "bounds": "years -9999..9999, every two-digit value 00..99 in each other field (invalid ones must be rejected)", "desc": "To(string_view, time_point<minutes>&): exact instant (independent day-count reference), invalid_argument for impossible dates (incl. Feb 29 of non-leap years), out_of_range when not representable", "unwind_fn": {"VA9_snprintf": 50, "verif_ndigits": 22}, "tier": "open"}
//@ OBL {"name": "h14b_ns_T", "prop": "vp_h14b_ns", "in": 8, "out": 16, "unwind": 8, "backends": ["kissat", "default"], "cap_s": 3600, "assume": "va_fields", "bounds": "years -9999..9999, every two-digit value 00..99 in each other field (invalid ones must be rejected)", "desc": "To(string_view, time_point<nanoseconds>&): exact instant (independent day-count reference), invalid_argument for impossible dates (incl. Feb 29 of non-leap years), out_of_range when not representable", "unwind_fn": {"VA9_snprintf": 50, "verif_ndigits": 22}, "tier": "open"}
//@ OBL {"name": "h14c_s", "prop": "vp_h14c_s", "in": 8, "out": 16, "unwind": 24, "backends": ["kissat", "default"], "cap_s": 3600, "cassume": ["RD64(in,0) < (1LL<<36) && RD64(in,0) > -(1LL<<36)"], "bounds": "|t| < 2^36 seconds", "desc": "print -> parse identity through the real text (exact digit rendering)", "unwind_fn": {"VA9_snprintf": 50, "verif_ndigits": 22}, "tier": "open"}
//@ OBL {"name": "h14c_days", "prop": "vp_h14c_days", "in": 8, "out": 16, "unwind": 24, "backends": ["kissat", "default"], "cap_s": 3600, "cassume": ["RD64(in,0) < (1LL<<20) && RD64(in,0) > -(1LL<<20)"], "bounds": "|z| < 2^20 days", "desc": "print -> parse identity, days based", "unwind_fn": {"VA9_snprintf": 50, "verif_ndigits": 22}, "tier": "open"}
//@ OBL {"name": "h14f_s", "prop": "vp_h14f_s", "in": 8, "out": 16, "unwind": 14, "backends": ["kissat", "default"], "cap_s": 3600, "cassume": ["RD64(in,0) < (1LL<<12) && RD64(in,0) > -(1LL<<12)"], "bounds": "|count| < 2^12", "desc": "duration print -> parse identity, shape [-]P...", "unwind_fn": {"VA9_snprintf": 50, "verif_ndigits": 22}, "tier": "open"}
//@ OBL {"name": "h14f_ms", "prop": "vp_h14f_ms", "in": 8, "out": 16, "unwind": 14, "backends": ["kissat", "default"], "cap_s": 3600, "cassume": ["RD64(in,0) < (1LL<<12) && RD64(in,0) > -(1LL<<12)"], "bounds": "|count| < 2^12", "desc": "duration<ms> print -> parse identity (fraction digits)", "unwind_fn": {"VA9_snprintf": 50, "verif_ndigits": 22}, "tier": "open"}
//@ OBL {"name": "h14f_h", "prop": "vp_h14f_h", "in": 8, "out": 16, "unwind": 14, "backends": ["kissat", "default"], "cap_s": 3600, "cassume": ["RD64(in,0) < (1LL<<12) && RD64(in,0) > -(1LL<<12)"], "bounds": "|count| < 2^12", "desc": "duration<hours> print -> parse identity", "unwind_fn": {"VA9_snprintf": 50, "verif_ndigits": 22}, "tier": "open"}
//@ OBL {"name": "h14g_ms", "prop": "vp_h14g_ms", "in": 8, "out": 16, "unwind": 8, "backends": ["kissat", "default"], "cap_s": 900, "cassume": ["RD64(in,0) < (1LL<<24) && RD64(in,0) > -(1LL<<24)"], "bounds": "|count| < 2^24 ms", "desc": "time_point -> CBinTimestamp -> time_point identity", "unwind_fn": {"VA9_snprintf": 50, "verif_ndigits": 22}}
//@ OBL {"name": "h14g_ns", "prop": "vp_h14g_ns", "in": 8, "out": 16, "unwind": 8, "backends": ["kissat", "default"], "cap_s": 900, "cassume": ["RD64(in,0) < (1LL<<24) && RD64(in,0) > -(1LL<<24)"], "bounds": "|count| < 2^24 ns", "desc": "time_point<ns> binary round trip", "unwind_fn": {"VA9_snprintf": 50, "verif_ndigits": 22}}
//@ OBL {"name": "h14g_s", "prop": "vp_h14g_s", "in": 8, "out": 16, "unwind": 8, "backends": ["kissat", "default"], "cap_s": 900, "bounds": "every int64 second count", "desc": "time_point<s> binary round trip", "unwind_fn": {"VA9_snprintf": 50, "verif_ndigits": 22}}
//@ OBL {"name": "h14g_h", "prop": "vp_h14g_h", "in": 8, "out": 16, "unwind": 8, "backends": ["kissat", "default"], "cap_s": 900, "bounds": "|count| < 2^24 hours", "desc": "time_point<h> binary round trip (out_of_range when seconds exceed int64)", "unwind_fn": {"VA9_snprintf": 50, "verif_ndigits": 22}, "cassume": ["RD64(in,0) < (1LL<<24) && RD64(in,0) > -(1LL<<24)"]}
//@ OBL {"name": "h14d_print", "prop": "vp_h14d_print", "in": 18, "out": 16, "unwind": 12, "unwind_fn": {"VA9_snprintf": 50, "verif_ndigits": 22}, "bounds": "every int64 year, every two-digit field, optional fraction 0..999999999", "desc": "PrintIsoUtc stays inside its UtcBufSize buffer for every year value (CBMC bounds checks on the real stack buffer) and ends with Z"}
// dates from tests/unit_tests/convert_tests/convert_chrono_tests.cpp and calendar corner cases
//@ VEC * 0000000000000000
//@ VEC * 082b000000000000
//@ VEC * ffffffffffffffff
//@ VEC * d0070c1f173b3b00
//@ VEC * d007021d00000000
//@ VEC * 6c07021d00000000
//@ VEC * 70fe030100000000
