// Scope-level MsgPack scenarios shared by C03 / C05 / C20: the real read scopes of msgpack_archive.h over the real string reader.
#pragma once
#include "mp_common.h"
#include "bitserializer/msgpack_archive.h"
namespace mps {
using namespace mpc;
typedef CMsgPackReadArrayScope<CMsgPackStringReader> ArrScope;      // the reader class is final: calls are direct (no virtual dispatch over both reader classes)
typedef CMsgPackReadObjectScope<CMsgPackStringReader> ObjScope;
}
