//@ PROPERTY C17
//@ STUB _ZSt8to_charsPcS_d _ZSt8to_charsPcS_f
// C17: validation reports exactly the failing rules.
//  h17a  validator kernels (validators.h): Required, Range<T>, MinSize, MaxSize with symbolic bounds / value / isLoaded:
//        documented truth table - Required fails iff the field was not loaded; Range/MinSize/MaxSize are INCLUSIVE and pass when
//        the field is absent.
//  h17b  KeyValueProxy::SplitAndSerialize(KeyValue<key, value, V1, V2, V3>) with a harness archive scope whose value loader
//        returns a symbolic "loaded" flag and value, and a harness context that records AddValidationError calls: the errors
//        recorded are exactly the failing validators, in declaration order, all under the path <scope path>/<key>; the value is
//        loaded regardless.
#include "vh.h"
#include <string>
#include <optional>
#include <map>
#include <vector>
#include <variant>
#include "bitserializer/serialization_detail/errors_handling.h"
#include "bitserializer/serialization_detail/serialization_options.h"
#define private public
#include "bitserializer/serialization_detail/serialization_context.h"
#undef private
#include "bitserializer/bit_serializer.h"
using namespace BitSerializer;
static const char* const M1 = "m1";
static const char* const M2 = "m2";
static const char* const M3 = "m3";
struct Sized { size_t n; size_t size() const { return n; } };
VH_EXPORT int vp_h17a_required(const unsigned char* in, unsigned char* out) {
	bool loaded = in[0] & 1; int v = vh::rd<int32_t>(in + 1);
	auto r = Required(M1)(v, loaded);
	out[0] = r.has_value();
	return r.has_value() == !loaded;
}
template <class T> static inline int prop_range(const unsigned char* in, unsigned char* out) {
	bool loaded = in[0] & 1; T v = vh::rd<T>(in + 1), lo = vh::rd<T>(in + 9), hi = vh::rd<T>(in + 17);
	auto r = Range<T>(lo, hi, M2)(v, loaded);
	out[0] = r.has_value();
	bool fail = loaded && (v < lo || v > hi);          // NaN compares false both ways: passes, as documented by the operators used
	return r.has_value() == fail;
}
VH_EXPORT int vp_h17a_minsize(const unsigned char* in, unsigned char* out) {
	bool loaded = in[0] & 1; Sized s{ vh::rd<uint64_t>(in + 1) }; size_t lim = vh::rd<uint64_t>(in + 9);
	auto r = MinSize(lim, M3)(s, loaded);
	out[0] = r.has_value();
	return r.has_value() == (loaded && s.n < lim);
}
VH_EXPORT int vp_h17a_maxsize(const unsigned char* in, unsigned char* out) {
	bool loaded = in[0] & 1; Sized s{ vh::rd<uint64_t>(in + 1) }; size_t lim = vh::rd<uint64_t>(in + 9);
	auto r = MaxSize(lim, M3)(s, loaded);
	out[0] = r.has_value();
	return r.has_value() == (loaded && s.n > lim);
}
VH_EXPORT int vp_h17a_range_i32(const unsigned char* in, unsigned char* out) { return prop_range<int32_t>(in, out); }
VH_EXPORT int vp_h17a_range_u64(const unsigned char* in, unsigned char* out) { return prop_range<uint64_t>(in, out); }
VH_EXPORT int vp_h17a_range_i64(const unsigned char* in, unsigned char* out) { return prop_range<int64_t>(in, out); }
VH_EXPORT int vp_h17a_range_f64(const unsigned char* in, unsigned char* out) { return prop_range<double>(in, out); }
// ---- h17b: the iff-logic of SplitAndSerialize with three validators in a symbolic configuration
// recording validators: each returns a fixed one-character message when its (symbolic) verdict says "fail"
struct RecV {
	char tag; bool failWhenLoaded, failWhenAbsent;
	std::optional<std::string> operator()(const int&, bool isLoaded) const {
		bool fail = isLoaded ? failWhenLoaded : failWhenAbsent;
		if (fail) return std::string(1, tag);
		return std::nullopt;
	}
};
struct RecCtx {            // stands in for SerializationContext: records the calls
	char tags[4] = { 0, 0, 0, 0 }; int n = 0; bool path_ok = true;
	void AddValidationError(std::string path, std::string msg) {
		if (n < 4) tags[n] = msg.empty() ? '?' : msg[0];
		n++;
		if (!(path.size() == 3 && path[0] == 'P' && path[1] == '/' && path[2] == 'k')) path_ok = false;
	}
};
struct MockScope {
	using key_type = std::string;
	using supported_key_types = TSupportedKeyTypes<key_type, std::string_view>;
	static constexpr char path_separator = '/';
	static constexpr bool IsLoading() { return true; }
	static constexpr bool IsSaving() { return false; }
	RecCtx& ctx; bool loaded; int value;
	RecCtx& GetContext() const { return ctx; }
	std::string GetPath() const { return std::string(1, 'P'); }
};
// the loader the proxy reaches through ADL for this scope type
template <class TKey> static bool Serialize(MockScope& s, TKey&&, int& v) { if (s.loaded) v = s.value; return s.loaded; }
VH_EXPORT int vp_h17b_split(const unsigned char* in, unsigned char* out) {
	RecCtx ctx; MockScope scope{ ctx, (in[0] & 1) != 0, vh::rd<int32_t>(in + 1) };
	RecV v1{ 'a', (in[5] & 1) != 0, (in[5] & 2) != 0 }, v2{ 'b', (in[5] & 4) != 0, (in[5] & 8) != 0 }, v3{ 'c', (in[5] & 16) != 0, (in[5] & 32) != 0 };
	int target = 4242;
	static const std::string key(1, 'k');
	verif_symbolic_phase();
	int rc = vh::outcome([&] { KeyValueProxy::SplitAndSerialize(scope, KeyValue(key, target, v1, v2, v3)); });
	out[0] = (unsigned char)rc; out[1] = (unsigned char)ctx.n; out[2] = ctx.tags[0]; out[3] = ctx.tags[1]; out[4] = ctx.tags[2];
	if (rc != vh::OK || !ctx.path_ok) return 0;
	// expected: failing validators in declaration order
	char exp[3]; int ne = 0; const RecV* vs[3] = { &v1, &v2, &v3 };
	for (int i = 0; i < 3; i++) if (scope.loaded ? vs[i]->failWhenLoaded : vs[i]->failWhenAbsent) exp[ne++] = vs[i]->tag;
	if (ctx.n != ne) return 0;
	for (int i = 0; i < 3; i++) if (i < ne && ctx.tags[i] != exp[i]) return 0;
	return scope.loaded ? target == scope.value : target == 4242;
}
// ---- h17d: the string validators PhoneNumber and Email on arbitrary short strings (custom message, so no text is assembled).
// The oracle is a sandwich stated from the documentation, not a transcription of the loops:
//   PhoneNumber(min, max, plusRequired): absent -> pass;  pass => only digits, ' ', '-', '(', ')', '+' occur, the number of digits is in
//   [min, max] (INCLUSIVE), parentheses are balanced, a '+' is present when required;  a "plain" number ('+' followed by digits only,
//   or digits only when the plus is optional) with min <= digits <= max MUST pass.
//   Email: absent -> pass; pass => exactly the characters before the first '@' form a non-empty local part, the domain part is
//   non-empty, contains no '@', does not start or end with '.', '-' ; "a@b" shaped plain addresses (letters '@' letters) MUST pass.
static constexpr size_t SN = 7;
VH_EXPORT int vp_h17d_phone(const unsigned char* in, unsigned char* out) {
	size_t n = in[0] <= SN ? in[0] : SN; const char* p = reinterpret_cast<const char*>(in + 1);
	size_t mn = in[8] % 9u, mx = in[9] % 9u; bool plus = in[10] & 1, loaded = in[10] & 2;
	std::string str(p, n);
	verif_symbolic_phase();
	auto r = PhoneNumber(mn, mx, plus, M1)(str, loaded);
	out[0] = r.has_value();
	if (!loaded) return !r.has_value();
	size_t digits = 0, open = 0, close = 0, pluses = 0; bool alien = false, plain = true;
	for (size_t i = 0; i < SN; i++) if (i < n) {
		char c = p[i];
		if (c >= '0' && c <= '9') digits++;
		else if (c == '(') open++; else if (c == ')') close++; else if (c == '+') pluses++;
		else if (c != ' ' && c != '-') alien = true;
		if (!((c >= '0' && c <= '9') || (i == 0 && c == '+'))) plain = false;
	}
	if (!r.has_value()) return !alien && digits >= mn && digits <= mx && open == close && (!plus || pluses > 0);
	if (plain && digits >= mn && digits <= mx && (!plus || pluses == 1)) return 0;          // a plain number within the limits must pass
	return 1;
}
VH_EXPORT int vp_h17d_email(const unsigned char* in, unsigned char* out) {
	size_t n = in[0] <= SN ? in[0] : SN; const char* p = reinterpret_cast<const char*>(in + 1);
	bool loaded = in[10] & 2;
	std::string str(p, n);
	verif_symbolic_phase();
	auto r = Email(M1)(str, loaded);
	out[0] = r.has_value();
	if (!loaded) return !r.has_value();
	size_t at = SN, ats = 0; bool letters = true;
	for (size_t i = 0; i < SN; i++) if (i < n) {
		if (p[i] == '@') { if (ats == 0) at = i; ats++; }
		else if (!((p[i] >= 'a' && p[i] <= 'z') || (p[i] >= 'A' && p[i] <= 'Z'))) letters = false;
	}
	if (!r.has_value()) {
		if (ats != 1 || at == 0 || at + 1 >= n) return 0;                                   // one '@', non-empty local and domain part
		char d0 = p[at + 1], dl = p[n - 1];
		return d0 != '.' && d0 != '-' && dl != '.' && dl != '-' && p[0] != '.' && p[at - 1] != '.';
	}
	if (letters && ats == 1 && at > 0 && at + 1 < n) return 0;                                // letters@letters must pass
	return 1;
}
// ---- h17c2: the smallest grouping scenario through the real SerializationContext: two errors, each for the path "/a" or "/ab"
// (one path is a prefix of the other), in every combination: errors are grouped by the EXACT path, in arrival order.
VH_EXPORT int vp_h17c_ctx2(const unsigned char* in, unsigned char* out) {
	static const char* const paths[2] = { "/a", "/ab" };
	SerializationOptions opt; opt.maxValidationErrors = 0;
	SerializationContext ctx(opt);
	unsigned s0 = in[0] & 1, s1 = in[1] & 1;
	int rc = vh::outcome([&] {
		ctx.AddValidationError(std::string(paths[s0]), std::string(1, 'x'));
		ctx.AddValidationError(std::string(paths[s1]), std::string(1, 'y'));
	});
	int thrown = 0; size_t nkeys = 0; int cnt[2] = { 0, 0 }; char first[2] = { 0, 0 }, second[2] = { 0, 0 };
	try { ctx.OnFinishSerialization(); }
	catch (const ValidationException& ex) {
		thrown = 1;
		for (const auto& kv : ex.GetValidationErrors()) {
			nkeys++;
			for (int p = 0; p < 2; p++) if (kv.first == paths[p]) {
				cnt[p] = (int)kv.second.size();
				if (kv.second.size() > 0) first[p] = kv.second[0][0];
				if (kv.second.size() > 1) second[p] = kv.second[1][0];
			}
		}
	}
	out[0] = (unsigned char)rc; out[1] = (unsigned char)thrown; out[2] = (unsigned char)nkeys; out[3] = (unsigned char)cnt[0]; out[4] = (unsigned char)cnt[1];
	if (rc != vh::OK || !thrown) return 0;
	if (s0 == s1) return nkeys == 1 && cnt[s0] == 2 && cnt[1 - s0] == 0 && first[s0] == 'x' && second[s0] == 'y';
	return nkeys == 2 && cnt[s0] == 1 && cnt[s1] == 1 && first[s0] == 'x' && first[s1] == 'y';
}
// ---- h17e: the grouping step alone, observed on the context's own map (no exception object, no OnFinishSerialization): two
// errors over the paths "/a" and "/ab" (one is a prefix of the other) in every combination and order.
VH_EXPORT int vp_h17e_ctxmap(const unsigned char* in, unsigned char* out) {
	static const char* const paths[2] = { "/a", "/ab" };
	SerializationOptions opt; opt.maxValidationErrors = 0;
	SerializationContext ctx(opt);
	unsigned s0 = in[0] & 1, s1 = in[1] & 1;
	int rc = vh::outcome([&] {
		ctx.AddValidationError(std::string(paths[s0]), std::string(1, 'x'));
		ctx.AddValidationError(std::string(paths[s1]), std::string(1, 'y'));
	});
	size_t nkeys = ctx.mErrorsMap.size(); size_t cnt[2] = { 0, 0 };
	for (int p = 0; p < 2; p++) { auto it = ctx.mErrorsMap.find(std::string(paths[p])); if (it != ctx.mErrorsMap.end()) cnt[p] = it->second.size(); }
	out[0] = (unsigned char)rc; out[2] = (unsigned char)nkeys; out[3] = (unsigned char)cnt[0]; out[4] = (unsigned char)cnt[1];
	if (rc != vh::OK) return 0;
	if (s0 == s1) return nkeys == 1 && cnt[s0] == 2 && cnt[1 - s0] == 0;
	return nkeys == 2 && cnt[0] == 1 && cnt[1] == 1;
}
// ---- h17c: the real SerializationContext: errors arrive for 3 paths out of {"/a", "/a/b", "/b", "/ab"} in a symbolic order
VH_EXPORT int vp_h17c_context(const unsigned char* in, unsigned char* out) {
	static const char* const paths[4] = { "/a", "/a/b", "/b", "/ab" };
	SerializationOptions opt; opt.maxValidationErrors = 0;
	SerializationContext ctx(opt);
	unsigned sel[3] = { in[0] % 4u, in[1] % 4u, in[2] % 4u };
	int rc = vh::outcome([&] {
		for (int i = 0; i < 3; i++) ctx.AddValidationError(std::string(paths[sel[i]]), std::string(1, (char)('x' + i)));
	});
	int thrown = 0; int count[4] = { 0, 0, 0, 0 }; char first[4] = { 0, 0, 0, 0 }; size_t nkeys = 0; bool order_ok = true;
	try { ctx.OnFinishSerialization(); }
	catch (const ValidationException& ex) {
		thrown = 1;
		for (const auto& kv : ex.GetValidationErrors()) {
			nkeys++;
			for (int p = 0; p < 4; p++) if (kv.first == paths[p]) {
				count[p] = (int)kv.second.size();
				first[p] = kv.second.empty() ? 0 : kv.second[0][0];
				// messages of one field keep their arrival order
				for (size_t j = 1; j < kv.second.size(); j++) if (kv.second[j][0] <= kv.second[j - 1][0]) order_ok = false;
			}
		}
	}
	out[0] = (unsigned char)rc; out[1] = (unsigned char)thrown; out[2] = (unsigned char)nkeys; for (int p = 0; p < 4; p++) out[3 + p] = (unsigned char)count[p];
	if (rc != vh::OK || !thrown || !order_ok) return 0;
	size_t distinct = 0;
	for (int p = 0; p < 4; p++) {
		int want = 0; char wf = 0;
		for (int i = 2; i >= 0; i--) if ((int)sel[i] == p) { want++; wf = (char)('x' + i); }
		if (count[p] != want || (want && first[p] != wf)) return 0;
		if (want) distinct++;
	}
	return nkeys == distinct;
}
//@ OBL {"name": "h17c_ctx2", "prop": "vp_h17c_ctx2", "tier": "open", "mem_gb": 36, "in": 2, "out": 8, "unwind": 6, "unwind_models": 8, "recursion": {"_M_erase": 3}, "unwind_fn": {"_M_erase": 4}, "fs": 32, "cap_s": 900, "backends": ["default", "kissat"], "bounds": "two errors over the paths /a and /ab in every combination and order", "desc": "real SerializationContext::AddValidationError / OnFinishSerialization: errors grouped by the exact path (a path that is a prefix of another one is a different field), arrival order kept"}
//@ OBL {"name": "h17d_phone", "prop": "vp_h17d_phone", "in": 11, "out": 8, "unwind": 9, "fs": 32, "cap_s": 900, "backends": ["default", "kissat"], "bounds": "every string of length <= 7, min/max digits 0..8, plus required or not, loaded or not", "desc": "PhoneNumber validator: passes only well-formed numbers with min <= digits <= max (inclusive); plain numbers within the limits pass"}
//@ OBL {"name": "h17d_email", "prop": "vp_h17d_email", "in": 11, "out": 8, "unwind": 9, "fs": 32, "cap_s": 900, "backends": ["default", "kissat"], "bounds": "every string of length <= 7, loaded or not", "desc": "Email validator: passes only local@domain shapes; letters@letters passes"}
//@ OBL {"name": "h17e_ctxmap", "prop": "vp_h17e_ctxmap", "tier": "open", "mem_gb": 30, "in": 2, "out": 8, "unwind": 6, "unwind_models": 8, "recursion": {"_M_erase": 3}, "unwind_fn": {"_M_erase": 4}, "fs": 32, "cap_s": 900, "backends": ["default", "kissat"], "bounds": "two errors over the paths /a and /ab in every combination and order; the context's map is inspected directly (no exception is built)", "desc": "real SerializationContext::AddValidationError: errors grouped by the exact path (a path that is a prefix of another one is a different field)"}
//@ OBL {"name": "h17c_context", "prop": "vp_h17c_context", "in": 8, "out": 8, "unwind": 10, "fs": 32, "cap_s": 3600, "bounds": "3 errors over the paths /a, /a/b, /b, /ab in every order and multiplicity (a path that is a prefix of another one included)", "desc": "SerializationContext: ValidationException lists exactly the failing fields, each with exactly its messages in arrival order", "tier": "open"}
//@ OBL {"name": "h17a_required", "prop": "vp_h17a_required", "in": 8, "out": 8, "unwind": 4, "bounds": "every value, both loaded states", "desc": "Required fails iff the field was not loaded"}
//@ OBL {"name": "h17a_range_i32", "prop": "vp_h17a_range_i32", "in": 25, "out": 8, "unwind": 4, "bounds": "every int32 value / min / max, both loaded states", "desc": "Range<int32>: inclusive bounds, passes when absent"}
//@ OBL {"name": "h17a_range_u64", "prop": "vp_h17a_range_u64", "in": 25, "out": 8, "unwind": 4, "bounds": "every uint64 value / min / max", "desc": "Range<uint64>"}
//@ OBL {"name": "h17a_range_i64", "prop": "vp_h17a_range_i64", "in": 25, "out": 8, "unwind": 4, "bounds": "every int64 value / min / max", "desc": "Range<int64>"}
//@ OBL {"name": "h17a_range_f64", "prop": "vp_h17a_range_f64", "in": 25, "out": 8, "unwind": 4, "bounds": "every double value / min / max (incl. NaN, infinities)", "desc": "Range<double>"}
//@ OBL {"name": "h17a_minsize", "prop": "vp_h17a_minsize", "in": 17, "out": 8, "unwind": 4, "bounds": "every size and limit", "desc": "MinSize: inclusive, passes when absent"}
//@ OBL {"name": "h17a_maxsize", "prop": "vp_h17a_maxsize", "in": 17, "out": 8, "unwind": 4, "bounds": "every size and limit", "desc": "MaxSize: inclusive, passes when absent"}
//@ OBL {"name": "h17b_split", "prop": "vp_h17b_split", "in": 8, "out": 8, "unwind": 6, "fs": 32, "bounds": "three validators with every combination of verdicts for the loaded / absent case, symbolic loaded flag and value", "desc": "SplitAndSerialize: recorded errors == failing validators in declaration order under <path>/<key>; value loaded regardless"}
//@ VEC * 0105000000010000000a000000
//@ VEC * 00ffffffffffffffff0000000000000000ffffffffffffffff00
//@ VEC h17d_phone 042b313233000000020403
//@ VEC h17d_phone 0731323334353637070702
//@ VEC h17d_phone 0628312932330000000802
//@ VEC h17d_email 0361406200000000000002
//@ VEC h17d_email 07612e6240632e64000002

//@ VEC h17e_ctxmap 0001
//@ VEC h17e_ctxmap 0100
//@ VEC h17e_ctxmap 0101
//@ VEC h17c_ctx2 0001
//@ VEC h17c_ctx2 0100
//@ VEC h17c_ctx2 0101
