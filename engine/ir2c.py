#!/usr/bin/env python3
"""LLVM-14 IR (clang++-14 -O1, typed pointers) -> C translator for CBMC.

usage: ir2c.py in.ll out.c --roots f1,f2 [--override mangled,...] [--stub mangled,...] [--models models.h]

Only functions/globals reachable from the roots (plus @llvm.global_ctors) are emitted.
Exceptions are lowered to an explicit "exception active" flag that every call that may unwind tests.
External functions need a model M_<name> in the models file (or --stub for a nondeterministic stub);
anything else is an error.  Unsupported IR is an error (never a silent pass).
"""
import sys, re, struct, argparse, os
from irparse import *

def san(s):
    return re.sub(r'[^A-Za-z0-9_]', '_', s)

STD_BASES = {
    '_ZTISt9exception': None,
    '_ZTISt9bad_alloc': '_ZTISt9exception', '_ZTISt20bad_array_new_length': '_ZTISt9bad_alloc',
    '_ZTISt11logic_error': '_ZTISt9exception', '_ZTISt12out_of_range': '_ZTISt11logic_error',
    '_ZTISt16invalid_argument': '_ZTISt11logic_error', '_ZTISt12length_error': '_ZTISt11logic_error',
    '_ZTISt12domain_error': '_ZTISt11logic_error', '_ZTISt13runtime_error': '_ZTISt9exception',
    '_ZTISt11range_error': '_ZTISt13runtime_error', '_ZTISt14overflow_error': '_ZTISt13runtime_error',
    '_ZTISt15underflow_error': '_ZTISt13runtime_error', '_ZTISt12system_error': '_ZTISt13runtime_error',
    '_ZTINSt8ios_base7failureB5cxx11E': '_ZTISt12system_error', '_ZTISt8bad_cast': '_ZTISt9exception',
    '_ZTISt10bad_typeid': '_ZTISt9exception', '_ZTISt17bad_function_call': '_ZTISt9exception',
    '_ZTISt18bad_variant_access': '_ZTISt9exception', '_ZTISt19bad_optional_access': '_ZTISt9exception',
    '_ZTISt12bad_weak_ptr': '_ZTISt9exception',
}

NOOP_INTRINSICS = ('llvm.lifetime.', 'llvm.invariant.', 'llvm.experimental.noalias.scope', 'llvm.dbg.',
                   'llvm.stacksave', 'llvm.stackrestore', 'llvm.prefetch', 'llvm.donothing')

class Emitter:
    def __init__(self, mod, roots, overrides=(), stubs=(), model_names=(), opts=None):
        self.m = mod
        self.roots = roots
        self.overrides = set(overrides)
        self.stubs = set(stubs)
        self.cut_re = re.compile(opts['cut']) if opts and opts.get('cut') else None
        self.cuts = set()
        self.model_names = set(model_names)
        self.opt_model_names = set((opts or {}).get('opt_model_names', ()))
        self.opts = opts or {}
        self.tnames = {}        # type key -> C type name
        self.fwd = []
        self.defs = []
        self.struct_done = set()
        self.struct_inprog = set()
        self.cnt = 0
        self.gname = {}
        self.used_gnames = set()
        self.tids = {}
        self.warnings = []
        self.bv_widths = set()

    # ------------------------------------------------------------ names
    def gn(self, name):
        if name in self.gname: return self.gname[name]
        s = san(name)
        if not re.match(r'[A-Za-z_]', s): s = 'g_' + s
        if name in self.m.globals and not name in self.m.funcs:
            s = 'g_' + s if not s.startswith('g_') else s
        elif name in self.m.funcs and (self.m.funcs[name].blocks is None or name in self.overrides):
            s = 'X_' + san(name)
        base = s; k = 1
        while s in self.used_gnames:
            k += 1; s = '%s_%d' % (base, k)
        self.used_gnames.add(s)
        self.gname[name] = s
        return s

    # ------------------------------------------------------------ types
    def resolve(self, t):
        while t.k == 'named':
            if t.a not in self.m.types: raise IRError('unknown type %' + t.a)
            t2 = self.m.types[t.a]
            if t2.k == 'opaque': return t2
            t = t2
        return t

    def ct(self, t):
        key = t.key()
        if key in self.tnames: return self.tnames[key]
        k = t.k
        if k == 'int':
            n = t.a
            if n == 1: nm = 'u1'
            elif n in (8, 16, 32, 64, 128): nm = 'u%d' % n
            else:
                nm = 'u%d' % n; self.bv_widths.add(n)
        elif k == 'float': nm = 'float'
        elif k == 'double': nm = 'double'
        elif k == 'x86_fp80': nm = 'long double'
        elif k == 'void': nm = 'void'
        elif k == 'named':
            nm = 'S_' + san(t.a)
            base = nm; j = 1
            while nm in self.used_gnames:
                j += 1; nm = '%s_%d' % (base, j)
            self.used_gnames.add(nm)
            self.fwd.append('typedef struct %s %s;' % (nm, nm))
        elif k == 'struct':
            self.cnt += 1
            nm = 'LS_%d' % self.cnt
            self.fwd.append('typedef struct %s %s;' % (nm, nm))
        elif k == 'ptr':
            p = t.a
            self.cnt += 1
            if p.k == 'func':
                nm = 'FP_%d' % self.cnt
                self.tnames[key] = nm
                ret = self.ct(p.a)
                ps = [self.ct(x) for x in p.b]
                args = ', '.join(ps) if ps else ('void' if not p.c else '')
                if p.c: args = (args + ', ...') if ps else '...'
                if not ps and p.c: args = ''   # K&R style unspecified
                self.defs.append('typedef %s (*%s)(%s);' % (ret, nm, args))
                return nm
            nm = 'P_%d' % self.cnt
            self.tnames[key] = nm
            if p.k == 'int' and p.a == 8:
                self.defs.append('typedef u8 *%s;' % nm)
            else:
                pn = self.ct(p)
                if p.k == 'arr': self.complete(p)
                self.defs.append('typedef %s *%s;' % (pn, nm))
            return nm
        elif k == 'arr':
            self.cnt += 1
            nm = 'A_%d' % self.cnt
            self.tnames[key] = nm
            self.complete(t.b)
            self.defs.append('typedef %s %s[%d];' % (self.ct(t.b), nm, max(t.a, 0)))
            return nm
        elif k == 'func':
            raise IRError('bare function type as value type: ' + key)
        elif k == 'opaque':
            nm = 'void'
        elif k == 'metadata' or k == 'label':
            nm = 'int'
        else:
            raise IRError('unsupported type ' + key)
        self.tnames[key] = nm
        return nm

    def complete(self, t):
        """make sure the C definition of t is emitted (needed for by-value use)"""
        k = t.k
        if k in ('int', 'float', 'double', 'ptr', 'void', 'x86_fp80'):
            self.ct(t); return
        if k == 'arr':
            self.ct(t); return
        if k in ('named', 'struct'):
            nm = self.ct(t)
            if nm in self.struct_done: return
            body = self.m.types.get(t.a) if k == 'named' else t
            if body is None: raise IRError('unknown type %' + t.a)
            if body.k == 'opaque':
                self.struct_done.add(nm)
                self.defs.append('struct %s { u8 opaque_; };' % nm)
                return
            if body.k == 'named':
                body = self.resolve(body)
            if nm in self.struct_inprog: raise IRError('recursive by-value type ' + nm)
            self.struct_inprog.add(nm)
            fields = []
            for i, ft in enumerate(body.a):
                self.complete(ft)
                fields.append('%s f%d;' % (self.ct(ft), i))
            if not fields: fields = ['u8 empty_[0];']
            self.struct_done.add(nm)
            packed = ' __attribute__((packed))' if body.b else ''
            self.defs.append('struct%s %s { %s };' % (packed, nm, ' '.join(fields)))
            return
        raise IRError('complete: ' + t.key())

    def isagg(self, t):
        return t.k in ('named', 'struct', 'arr')

    # ------------------------------------------------------------ typeinfo
    def tid(self, name):
        if name not in self.tids:
            self.tids[name] = len(self.tids) + 1
        return self.tids[name]

    def ti_bases(self, name):
        if name in STD_BASES:
            b = STD_BASES[name]
            return [b] if b else []
        g = self.m.globals.get(name)
        if g is None or g.init is None:
            if name.startswith('_ZTI') and len(name) <= 6: return []      # fundamental
            self.warnings.append('unknown external typeinfo %s: treated as base-less' % name)
            return []
        init = g.init
        if init.k != 'struct': return []
        def gl(v):
            while v.k == 'cexpr': v = v.b[0]
            return v.a if v.k == 'global' else None
        vt = gl(init.a[0]) or ''
        if 'si_class_type_info' in vt:
            return [gl(init.a[2])]
        if 'vmi_class_type_info' in vt:
            bases = []
            i = 4
            while i + 1 < len(init.a):
                off = init.a[i + 1].a
                if (off >> 8) != 0:
                    self.warnings.append('typeinfo %s has a base at non-zero offset; pointer adjustment not modelled' % name)
                bases.append(gl(init.a[i])); i += 2
            return bases
        return []

    def emit_isa(self):
        # closure
        out = ['static int verif_exc_isa(int thrown, int caught) {', '  if (thrown == caught) return 1;', '  switch (thrown) {']
        names = list(self.tids.keys())
        anc = {}
        def ancestors(n, seen):
            for b in self.ti_bases(n):
                if b and b not in seen:
                    seen.add(b); ancestors(b, seen)
            return seen
        for n in names:
            anc[n] = ancestors(n, set())
        for n in list(self.tids.keys()):
            cs = [self.tids[a] for a in anc.get(n, ()) if a in self.tids]
            if cs:
                out.append('  case %d: /* %s */ return %s;' % (self.tids[n], n, ' || '.join('caught == %d' % c for c in sorted(cs))))
        out += ['  default: return 0; }', '}']
        return out

    # ------------------------------------------------------------ reachability
    def reach(self):
        m = self.m
        seenF, seenG = set(), set()
        work = []
        def addname(n):
            if n in m.aliases:
                v = m.aliases[n]
                scan_val(v); return
            if n in m.funcs:
                if n not in seenF:
                    seenF.add(n); work.append(('f', n))
            elif n in m.globals:
                if n not in seenG:
                    seenG.add(n); work.append(('g', n))
            else:
                raise IRError('reference to unknown symbol @' + n)
        def scan_val(v):
            if v is None: return
            if v.k == 'global': addname(v.a)
            elif v.k == 'cexpr':
                for x in v.b: scan_val(x)
            elif v.k in ('struct', 'array'):
                for x in v.a: scan_val(x)
        for r in self.roots: addname(r)
        for c in m.ctors: addname(c)
        while work:
            kind, n = work.pop()
            if kind == 'f':
                f = m.funcs[n]
                if f.blocks is None: continue
                if self.cut_re and n not in self.roots and self.cut_re.search(n):
                    # deliberate cut: the body is replaced by an assertion that the function is never reached (MODEL failure if it is)
                    self.cuts.add(n); continue
                if n in self.overrides:
                    # body replaced by a model: keep the global objects it refers to (vtables ...) reachable for the model
                    for b in f.blocks:
                        for ins in b.instrs:
                            for o in ins.ops:
                                gv = o
                                while gv is not None and gv.k == 'cexpr': gv = gv.b[0]
                                if gv is not None and gv.k == 'global' and gv.a in m.globals: addname(gv.a)
                    continue
                for b in f.blocks:
                    for ins in b.instrs:
                        for o in ins.ops: scan_val(o)
                        x = ins.x
                        if ins.op in ('call', 'invoke'):
                            cal = x['callee']
                            if cal.k == 'global' and (cal.a.startswith('llvm.') ):
                                continue
                            if cal.k == 'global' and cal.a == '__cxa_throw':
                                # typeinfo + destructor
                                scan_val(ins.ops[2])
                                ti = ins.ops[1]
                                continue
                            scan_val(cal)
                        elif ins.op == 'phi':
                            for (v, _) in x['inc']: scan_val(v)
                        elif ins.op == 'switch':
                            pass
                        elif ins.op == 'landingpad':
                            pass
            else:
                g = m.globals[n]
                if n.startswith('_ZTI') or n.startswith('_ZTS'): continue
                scan_val(g.init)
        self.rf, self.rg = seenF, seenG

    # ------------------------------------------------------------ constants
    def intlit(self, t, v):
        n = t.a
        v &= (1 << n) - 1
        if n == 1: return '((u1)%d)' % v
        if n <= 32: return '((u%d)%dU)' % (n, v)
        if n <= 64: return '((u%d)%dULL)' % (n, v)
        hi, lo = v >> 64, v & ((1 << 64) - 1)
        return '((((u%d)%dULL) << 64) | (u%d)%dULL)' % (n, hi, n, lo)

    def floatlit(self, t, v):
        if v.k == 'float':
            f = v.a
        else:
            h = v.a
            if h.startswith('0x') and h[2] in 'KLMHR': raise IRError('unsupported float constant ' + h)
            f = struct.unpack('>d', int(h, 16).to_bytes(8, 'big'))[0]
        if f != f: return '((%s)__builtin_nan(""))' % self.ct(t)
        if f in (float('inf'), float('-inf')):
            return '((%s)%s__builtin_inf())' % (self.ct(t), '-' if f < 0 else '')
        return '((%s)%s)' % (self.ct(t), f.hex())

    def zero(self, t):
        if self.isagg(t):
            self.complete(t)
            return '((%s){0})' % self.ct(t)
        return '((%s)0)' % self.ct(t)

    def gep_expr(self, bt, args, exf):
        base = args[0]
        e = exf(base)
        cur = bt
        i0 = args[1] if len(args) > 1 else None
        self.complete(bt) if self.isagg(bt) else self.ct(bt)
        if i0 is None or (i0.k == 'int' and i0.a == 0):
            acc = '(*%s)' % e
        else:
            acc = '%s[%s]' % (e, self.sidx(i0, exf))
        for ix in args[2:]:
            r = self.resolve(cur)
            if r.k == 'struct':
                if ix.k != 'int': raise IRError('non-constant struct index')
                acc += '.f%d' % ix.a
                cur = r.a[ix.a]
            elif r.k == 'arr':
                acc += '[%s]' % self.sidx(ix, exf)
                cur = r.b
            else:
                raise IRError('gep into ' + r.key())
        return '(&%s)' % acc, PTR(cur)

    def sidx(self, ix, exf):
        if ix.k == 'int': return str(ix.a)
        n = ix.ty.a
        if n in (8, 16, 32, 64): return '(s%d)%s' % (n, exf(ix))
        return '(s64)(%s)' % self.sext_expr(exf(ix), n, 64)

    def sext_expr(self, e, n, to):
        if n in (8, 16, 32, 64, 128):
            return '((u%d)(s%d)(s%d)%s)' % (to, to if to in (8, 16, 32, 64, 128) else 64, n, e)
        # odd width: shift trick in 64/128 bit
        w = 64 if n < 64 else 128
        return '((u%d)((s%d)((u%d)%s << %d) >> %d))' % (to, w, w, e, w - n, w - n)

    def cx(self, v, env=None):
        """C expression for a Val; env maps local names -> C names"""
        t = v.ty
        k = v.k
        if k == 'local':
            return env[v.a]
        if k == 'global':
            n = v.a
            if n in self.m.aliases:
                return self.cx(Val(self.m.aliases[n].k, self.m.aliases[n].ty, self.m.aliases[n].a, self.m.aliases[n].b, self.m.aliases[n].c), env)
            if n in self.m.funcs:
                f = self.m.funcs[n]
                e = '(&%s)' % self.gn(n)
                if t is not None and t.key() != PTR(f.fty).key():
                    e = '((%s)%s)' % (self.ct(t), e)
                return e
            g = self.m.globals[n]
            e = '(&%s)' % self.gn(n)
            if g.const and g.init is not None and t is not None:
                e = '((%s)%s)' % (self.ct(PTR(g.ty)), e)
            if n.startswith('_ZTI'):
                self.tid(n)
                return '((%s)&verif_typeinfo[%d])' % (self.ct(t), self.tid(n))
            if t is not None and t.key() != PTR(g.ty).key():
                e = '((%s)%s)' % (self.ct(t), e)
            return e
        if k == 'int':
            if t.k == 'int': return self.intlit(t, v.a)
            raise IRError('int const of type ' + t.key())
        if k in ('float', 'fhex'):
            return self.floatlit(t, v)
        if k == 'null': return '((%s)0)' % self.ct(t)
        if k in ('undef', 'zero'): return self.zero(t)
        if k == 'cexpr':
            op = v.a
            if op == 'getelementptr':
                e, rt = self.gep_expr(v.c, v.b, lambda x: self.cx(x, env))
                return e
            if op in ('bitcast', 'inttoptr', 'ptrtoint', 'addrspacecast'):
                src = v.b[0]
                if op == 'bitcast' and not (src.ty.k == 'ptr' and v.c.k == 'ptr'):
                    raise IRError('non-pointer constant bitcast')
                if op == 'ptrtoint':
                    return '((%s)(uintptr_t)%s)' % (self.ct(v.c), self.cx(src, env))
                if op == 'inttoptr':
                    return '((%s)(uintptr_t)%s)' % (self.ct(v.c), self.cx(src, env))
                return '((%s)%s)' % (self.ct(v.c), self.cx(src, env))
            if op in ('trunc', 'zext'):
                return '((%s)%s)' % (self.ct(v.c), self.cx(v.b[0], env))
            if op in ('add', 'sub', 'mul', 'and', 'or', 'xor'):
                cop = {'add': '+', 'sub': '-', 'mul': '*', 'and': '&', 'or': '|', 'xor': '^'}[op]
                return '((%s)(%s %s %s))' % (self.ct(t), self.cx(v.b[0], env), cop, self.cx(v.b[1], env))
            if op == 'icmp' and v.c in ('eq', 'ne'):
                return '((u1)(%s %s %s))' % (self.cx(v.b[0], env), '==' if v.c == 'eq' else '!=', self.cx(v.b[1], env))
            if op == 'select':
                return '(%s ? %s : %s)' % tuple(self.cx(x, env) for x in v.b)
            raise IRError('unsupported constant expression ' + op)
        if k in ('struct', 'array', 'str'):
            self.complete(t)
            return '((%s)%s)' % (self.ct(t), self.init(v))
        raise IRError('cx: ' + k)

    def init(self, v):
        """static initializer text"""
        k = v.k
        if k == 'struct':
            if not v.a: return '{0}'
            return '{ ' + ', '.join(self.init(x) for x in v.a) + ' }'
        if k == 'array':
            if not v.a: return '{0}'
            return '{ ' + ', '.join(self.init(x) for x in v.a) + ' }'
        if k == 'str':
            return '{ ' + ','.join(str(b) for b in v.a) + ' }'
        if k in ('zero', 'undef'):
            return '{0}' if self.isagg(v.ty) else '0'
        return self.cx(v, {})

    # ------------------------------------------------------------ functions
    def attrs_of(self, attrs):
        s = set()
        for a in attrs:
            if a.startswith('#'): s |= self.m.attr_groups.get(a, set())
            else: s.add(a)
        return s

    def may_throw(self, ins):
        x = ins.x
        if 'nounwind' in self.attrs_of(x['attrs']): return False
        cal = x['callee']
        if cal.k == 'global':
            if cal.a.startswith('llvm.'): return False
            f = self.m.funcs.get(cal.a)
            if f is not None and 'nounwind' in self.attrs_of(f.attrs): return False
        return True

    def proto(self, f, name=None):
        ps = ', '.join('%s %s' % (self.ct(t), 'a_' + san(pn)) for (t, pn) in f.params)
        if f.vararg: ps = ps + ', ...' if ps else '...'
        if not ps: ps = 'void'
        return '%s %s(%s)' % (self.ct(f.ret), name or self.gn(f.name), ps)

    def rpo_view(self, f):
        """the function with its blocks in reverse post-order of the CFG (ties broken towards the original order): every retreating
        edge is then a genuine loop back edge.  In LLVM's own block order a block may be laid out before its predecessors without
        being a loop header; the backward goto emitted for such an edge is a 'loop' of its own for CBMC, whose unwinding counter
        interferes with the enclosing loop's (spurious unwinding-assertion failures, repeated re-execution)."""
        blocks = f.blocks
        if len(blocks) < 3: return f
        idx = {b.name: i for i, b in enumerate(blocks)}
        def succs(b):
            t = b.instrs[-1]
            if t.op == 'br': return [t.x['dest']]
            if t.op == 'condbr': return [t.x['t'], t.x['f']]
            if t.op == 'switch': return [t.x['default']] + [lb for (_, lb) in t.x['cases']]
            if t.op == 'invoke': return [t.x['normal'], t.x['unwind']]
            return []
        seen = set(); post = []
        stack = [(blocks[0].name, None)]
        while stack:
            n, it = stack.pop()
            if it is None:
                if n in seen: continue
                seen.add(n)
                ss = sorted(set(succs(blocks[idx[n]])), key=lambda x: -idx[x])      # higher original index first -> ends up later
                it = iter(ss)
            adv = False
            for s_ in it:
                if s_ not in seen:
                    stack.append((n, it)); stack.append((s_, None)); adv = True; break
            if not adv: post.append(n)
        order = [blocks[idx[n]] for n in reversed(post)] + [b for b in blocks if b.name not in seen]
        if [b.name for b in order] == [b.name for b in blocks]: return f
        import copy
        g = copy.copy(f); g.blocks = order
        return g

    def emit_function(self, f):
        out = []
        env = {}
        used = set()
        if os.environ.get('VERIF_RPO', '1') != '0':
            f = self.rpo_view(f)
        def local(n):
            if n in env: return env[n]
            s = 'v_' + san(n)
            while s in used: s += '_'
            used.add(s); env[n] = s
            return s
        for (t, pn) in f.params:
            env[pn] = 'a_' + san(pn)
        decls = []
        body = []
        lbl = {}
        for b in f.blocks:
            lbl[b.name] = 'L_' + san(b.name)
        # phi map
        phis = {}
        for b in f.blocks:
            phis[b.name] = [i for i in b.instrs if i.op == 'phi']
        # declare results
        restype = {}
        def declare(ins, t):
            n = local(ins.res)
            restype[ins.res] = t
            if self.isagg(t): self.complete(t)
            decls.append('%s %s;' % (self.ct(t), n))
            return n
        cx = lambda v: self.cx(v, env)
        retz = None
        if f.ret.k != 'void':
            if self.isagg(f.ret): self.complete(f.ret)
            decls.append('%s RETZ = {0};' % self.ct(f.ret))
            retz = 'return RETZ;'
        else:
            retz = 'return;'
        tmpc = [0]
        # single back edge per loop head: CBMC treats every backward goto as a loop of its own and re-executes the body
        # per back edge (exponential).  All backward edges to a head go through one trampoline placed after the last source.
        bidx = {b.name: i for i, b in enumerate(f.blocks)}
        latch_after = {}
        def succs(b):
            t = b.instrs[-1]
            if t.op == 'br': return [t.x['dest']]
            if t.op == 'condbr': return [t.x['t'], t.x['f']]
            if t.op == 'switch': return [t.x['default']] + [lb for (_, lb) in t.x['cases']]
            if t.op == 'invoke': return [t.x['normal'], t.x['unwind']]
            return []
        for b in f.blocks:
            for sname in succs(b):
                if bidx[sname] <= bidx[b.name]:
                    latch_after[sname] = max(latch_after.get(sname, -1), bidx[b.name])
        def target(frm, to):
            if bidx[to] <= bidx[frm]: return 'LT_' + lbl[to][2:]
            return lbl[to]
        def edge(frm, to):
            ps = phis[to]
            if not ps: return 'goto %s;' % target(frm, to)
            vals = []
            for p in ps:
                hit = None
                for (v, lb) in p.x['inc']:
                    if lb == frm: hit = v; break
                if hit is None: raise IRError('phi without incoming for %s in %s' % (frm, f.name))
                vals.append(hit)
            phinames = {p.res for p in ps}
            need_tmp = any(v.k == 'local' and v.a in phinames for v in vals) and len(ps) > 1
            s = []
            if need_tmp:
                tn = []
                for p, v in zip(ps, vals):
                    tmpc[0] += 1
                    t = 'pt_%d' % tmpc[0]
                    decls.append('%s %s;' % (self.ct(p.ty), t))
                    s.append('%s = %s;' % (t, cx(v))); tn.append(t)
                for p, t in zip(ps, tn):
                    s.append('%s = %s;' % (env[p.res], t))
            else:
                for p, v in zip(ps, vals):
                    if v.k == 'undef': continue
                    s.append('%s = %s;' % (env[p.res], cx(v)))
            return '{ ' + ' '.join(s) + ' goto %s; }' % target(frm, to)
        # pre-declare all results (so forward references in phis work)
        for b in f.blocks:
            for ins in b.instrs:
                if ins.res is None: continue
                t = self.result_type(ins)
                if t is None or t.k == 'void':
                    ins.res = None; continue
                declare(ins, t)
        for b in f.blocks:
            body.append('%s: ;' % lbl[b.name])
            for ins in b.instrs:
                self.emit_instr(f, b, ins, body, decls, env, cx, edge, retz, tmpc)
            for h in sorted([h for h, i in latch_after.items() if i == bidx[b.name]], key=lambda h: -bidx[h]):
                body.append('LT_%s: goto %s;' % (lbl[h][2:], lbl[h]))
        out.append(self.proto(f) + ' {')
        out += ['  ' + d for d in decls]
        out += ['  ' + l for l in body]
        out.append('}')
        return out

    def result_type(self, ins):
        op = ins.op
        if op in BINOPS or op in CASTS or op in ('select', 'phi', 'load', 'landingpad', 'freeze', 'insertvalue', 'fneg'):
            return ins.ty
        if op in ('icmp', 'fcmp'): return INT(1)
        if op == 'alloca': return ins.ty
        if op == 'getelementptr':
            cur = ins.x['bt']
            for ix in ins.ops[2:]:
                r = self.resolve(cur)
                if r.k == 'struct': cur = r.a[ix.a]
                elif r.k == 'arr': cur = r.b
                else: raise IRError('gep into ' + r.key())
            return PTR(cur)
        if op == 'extractvalue':
            cur = ins.ops[0].ty
            for i in ins.x['idx']:
                r = self.resolve(cur)
                cur = r.a[i] if r.k == 'struct' else r.b
            return cur
        if op in ('call', 'invoke'):
            return ins.x['rt']
        if op in ('atomicrmw', 'cmpxchg'):
            return ins.ty
        if op == 'unsupported':
            raise IRError('unsupported instruction %s in an emitted function: %s' % (ins.x['why'], ins.line))
        raise IRError('result_type ' + op)

    def su(self, n):
        return n in (8, 16, 32, 64, 128)

    def emit_instr(self, f, b, ins, body, decls, env, cx, edge, retz, tmpc):
        op = ins.op
        r = env.get(ins.res) if ins.res else None
        A = body.append
        if op == 'phi': return
        if op in BINOPS:
            t = ins.ty
            a, c = cx(ins.ops[0]), cx(ins.ops[1])
            T = self.ct(t)
            if t.k in ('float', 'double', 'x86_fp80'):
                if op == 'frem':
                    A('%s = (%s)__builtin_fmod(%s, %s);' % (r, T, a, c)); return
                cop = {'fadd': '+', 'fsub': '-', 'fmul': '*', 'fdiv': '/'}[op]
                A('%s = %s %s %s;' % (r, a, cop, c)); return
            n = t.a
            W = 'u32' if n < 32 else T          # compute width (avoid int promotion UB)
            if n == 1:
                cop = {'and': '&', 'or': '|', 'xor': '^', 'add': '^', 'sub': '^', 'mul': '&'}.get(op)
                if cop is None: raise IRError('i1 ' + op)
                A('%s = (u1)((%s %s %s) & 1);' % (r, a, cop, c)); return
            if op in ('add', 'sub', 'mul', 'and', 'or', 'xor'):
                cop = {'add': '+', 'sub': '-', 'mul': '*', 'and': '&', 'or': '|', 'xor': '^'}[op]
                A('%s = (%s)((%s)%s %s (%s)%s);' % (r, T, W, a, cop, W, c)); return
            if op in ('udiv', 'urem'):
                cop = '/' if op == 'udiv' else '%'
                A('VERIF_UB(%s == 0, "division by zero");' % c)
                A('%s = (%s)(%s %s %s);' % (r, T, a, cop, c)); return
            if op in ('sdiv', 'srem'):
                cop = '/' if op == 'sdiv' else '%'
                if not self.su(n): raise IRError('sdiv on odd width')
                S = 's%d' % n
                A('VERIF_UB(%s == 0, "division by zero");' % c)
                A('VERIF_UB((%s)%s == -1 && %s == %s, "signed division overflow");' % (S, c, a, self.intlit(t, 1 << (n - 1))))
                A('%s = (%s)((%s)%s %s (%s)%s);' % (r, T, S, a, cop, S, c)); return
            if op == 'shl':
                A('%s = (%s >= %d) ? (%s)0 : (%s)((%s)%s << %s);' % (r, c, n, T, T, W, a, c)); return
            if op == 'lshr':
                A('%s = (%s >= %d) ? (%s)0 : (%s)(%s >> %s);' % (r, c, n, T, T, a, c)); return
            if op == 'ashr':
                if not self.su(n): raise IRError('ashr on odd width')
                A('%s = (%s >= %d) ? (%s)0 : (%s)((s%d)%s >> %s);' % (r, c, n, T, T, n, a, c)); return
            raise IRError('binop ' + op)
        if op == 'fneg':
            A('%s = -%s;' % (r, cx(ins.ops[0]))); return
        if op in CASTS:
            src = ins.ops[0]; st = src.ty; dt = ins.ty
            e = cx(src); D = self.ct(dt)
            if op in ('trunc', 'zext'):
                if st.k == 'int' and st.a == 1 and op == 'zext':
                    A('%s = (%s)(%s ? 1 : 0);' % (r, D, e)); return
                if dt.k == 'int' and dt.a == 1:
                    A('%s = (u1)(%s & 1);' % (r, e)); return
                A('%s = (%s)%s;' % (r, D, e)); return
            if op == 'sext':
                if st.a == 1:
                    A('%s = %s ? (%s)~(%s)0 : (%s)0;' % (r, e, D, D, D)); return
                A('%s = (%s)%s;' % (r, D, self.sext_expr(e, st.a, dt.a))); return
            if op in ('fptrunc', 'fpext', 'uitofp'):
                A('%s = (%s)%s;' % (r, D, e)); return
            if op == 'sitofp':
                if not self.su(st.a): raise IRError('sitofp odd width')
                A('%s = (%s)(s%d)%s;' % (r, D, st.a, e)); return
            if op in ('fptoui', 'fptosi'):
                n = dt.a
                # out-of-range conversion yields poison (not immediate UB): LLVM may speculate it.  Source-level float-cast UB is
                # caught by the explicit -fsanitize=float-cast-overflow trap checks compiled into the IR.
                if op == 'fptoui':
                    A('%s = (%s > -1.0 && %s < %s) ? (%s)%s : (%s)0;' % (r, e, e, float(2 ** n).hex(), D, e, D))
                else:
                    A('%s = (%s >= %s && %s < %s) ? (%s)(s%d)%s : %s;' % (r, e, (-float(2 ** (n - 1))).hex(), e, float(2 ** (n - 1)).hex(), D, n, e, self.intlit(dt, 1 << (n - 1))))
                return
            if op == 'ptrtoint':
                A('%s = (%s)(uintptr_t)%s;' % (r, D, e)); return
            if op == 'inttoptr':
                A('%s = (%s)(uintptr_t)%s;' % (r, D, e)); return
            if op in ('bitcast', 'addrspacecast'):
                if st.k == 'ptr' and dt.k == 'ptr':
                    A('%s = (%s)%s;' % (r, D, e)); return
                # scalar reinterpretation
                tmpc[0] += 1
                u = 'bc_%d' % tmpc[0]
                decls.append('union { %s s; %s d; } %s;' % (self.ct(st), D, u))
                A('%s.s = %s; %s = %s.d;' % (u, e, r, u)); return
        if op == 'icmp':
            a, c = ins.ops
            pred = ins.x['pred']
            t = a.ty
            ea, ec = cx(a), cx(c)
            if t.k == 'ptr':
                cop = {'eq': '==', 'ne': '!=', 'ult': '<', 'ule': '<=', 'ugt': '>', 'uge': '>=',
                       'slt': '<', 'sle': '<=', 'sgt': '>', 'sge': '>='}[pred]
                if pred in ('eq', 'ne'):
                    A('%s = (u1)(%s %s %s);' % (r, ea, cop, ec))
                else:
                    A('%s = (u1)((uintptr_t)%s %s (uintptr_t)%s);' % (r, ea, cop, ec))
                return
            n = t.a
            if pred in ('eq', 'ne', 'ult', 'ule', 'ugt', 'uge'):
                cop = {'eq': '==', 'ne': '!=', 'ult': '<', 'ule': '<=', 'ugt': '>', 'uge': '>='}[pred]
                A('%s = (u1)(%s %s %s);' % (r, ea, cop, ec)); return
            cop = {'slt': '<', 'sle': '<=', 'sgt': '>', 'sge': '>='}[pred]
            if n == 1:
                A('%s = (u1)(-(int)%s %s -(int)%s);' % (r, ea, cop, ec)); return
            if self.su(n):
                A('%s = (u1)((s%d)%s %s (s%d)%s);' % (r, n, ea, cop, n, ec)); return
            A('%s = (u1)((s64)%s %s (s64)%s);' % (r, self.sext_expr(ea, n, 64), cop, self.sext_expr(ec, n, 64))); return
        if op == 'fcmp':
            a, c = cx(ins.ops[0]), cx(ins.ops[1])
            pred = ins.x['pred']
            uno = '(%s != %s || %s != %s)' % (a, a, c, c)
            m = {'oeq': '(%s == %s)', 'ogt': '(%s > %s)', 'oge': '(%s >= %s)', 'olt': '(%s < %s)', 'ole': '(%s <= %s)',
                 'one': '(%s < %s || %s > %s)'}
            if pred in m:
                e = m[pred] % ((a, c) if pred != 'one' else (a, c, a, c))
            elif pred == 'ord': e = '!' + uno
            elif pred == 'uno': e = uno
            elif pred == 'une': e = '(%s != %s)' % (a, c)
            elif pred == 'ueq': e = '!(%s < %s || %s > %s)' % (a, c, a, c)
            elif pred == 'ugt': e = '!(%s <= %s)' % (a, c)
            elif pred == 'uge': e = '!(%s < %s)' % (a, c)
            elif pred == 'ult': e = '!(%s >= %s)' % (a, c)
            elif pred == 'ule': e = '!(%s > %s)' % (a, c)
            elif pred == 'true': e = '1'
            elif pred == 'false': e = '0'
            else: raise IRError('fcmp ' + pred)
            A('%s = (u1)(%s);' % (r, e)); return
        if op == 'select':
            A('%s = %s ? %s : %s;' % (r, cx(ins.ops[0]), cx(ins.ops[1]), cx(ins.ops[2]))); return
        if op == 'freeze':
            A('%s = %s;' % (r, cx(ins.ops[0]))); return
        if op == 'br':
            A(edge(b.name, ins.x['dest'])); return
        if op == 'condbr':
            A('if (%s) %s else %s' % (cx(ins.ops[0]), edge(b.name, ins.x['t']), edge(b.name, ins.x['f']))); return
        if op == 'switch':
            v = ins.ops[0]
            A('switch (%s) {' % cx(v))
            for (cv, lb) in ins.x['cases']:
                A('  case %s: %s' % (self.intlit(cv.ty, cv.a).replace('((u%d)' % cv.ty.a, '(').rstrip(), edge(b.name, lb)))
            A('  default: %s' % edge(b.name, ins.x['default']))
            A('}'); return
        if op == 'ret':
            if ins.ops: A('return %s;' % cx(ins.ops[0]))
            else: A('return;')
            return
        if op == 'unreachable':
            A('VERIF_UNREACHABLE(); %s' % retz); return
        if op == 'resume':
            A('verif_resume(%s.f0); %s' % (cx(ins.ops[0]), retz)); return
        if op == 'load':
            t = ins.ty
            if t.k == 'arr':
                A('memcpy(&%s, %s, sizeof(%s));' % (r, cx(ins.ops[0]), r)); return
            A('%s = *%s;' % (r, cx(ins.ops[0]))); return
        if op == 'store':
            v, p = ins.ops
            if v.ty.k == 'arr':
                tmpc[0] += 1
                A('{ %s st_tmp = %s; memcpy(%s, &st_tmp, sizeof(st_tmp)); }' % (self.ct(v.ty), self.init(v) if v.k in ('zero', 'undef', 'array') else cx(v), cx(p))); return
            if self.opts.get('store_hook'):
                A('VERIF_STORE(%s, sizeof(%s));' % (cx(p), self.ct(v.ty)))
            A('*%s = %s;' % (cx(p), cx(v))); return
        if op == 'alloca':
            aty = ins.x['aty']
            self.complete(aty) if self.isagg(aty) else self.ct(aty)
            tmpc[0] += 1
            an = 'al_%d' % tmpc[0]
            al = ' __attribute__((aligned(%d)))' % ins.x['align'] if ins.x.get('align') else ''
            if ins.ops:
                cnt = ins.ops[0]
                if cnt.k != 'int': raise IRError('dynamic alloca')
                decls.append('%s %s[%d]%s;' % (self.ct(aty), an, cnt.a, al))
                A('%s = &%s[0];' % (r, an))
            else:
                decls.append('%s %s%s;' % (self.ct(aty), an, al))
                A('%s = &%s;' % (r, an))
            return
        if op == 'getelementptr':
            e, rt = self.gep_expr(ins.x['bt'], ins.ops, cx)
            A('%s = %s;' % (r, e)); return
        if op == 'extractvalue':
            acc = cx(ins.ops[0])
            cur = ins.ops[0].ty
            for i in ins.x['idx']:
                rr = self.resolve(cur)
                if rr.k == 'struct': acc += '.f%d' % i; cur = rr.a[i]
                else: raise IRError('extractvalue on array')
            A('%s = %s;' % (r, acc)); return
        if op == 'insertvalue':
            agg, v = ins.ops
            if agg.k != 'undef':
                A('%s = %s;' % (r, cx(agg)))
            acc = r
            cur = agg.ty
            for i in ins.x['idx']:
                rr = self.resolve(cur)
                if rr.k == 'struct': acc += '.f%d' % i; cur = rr.a[i]
                else: raise IRError('insertvalue on array')
            A('%s = %s;' % (acc, cx(v))); return
        if op == 'landingpad':
            cl = ins.x['clauses']
            A('{ u32 sel_ = 0;')
            for (kind, v) in cl:
                if kind == 'filter':
                    A('  VERIF_TERMINATE("exception filter");')
                    continue
                g = v
                while g.k == 'cexpr': g = g.b[0]
                if g.k == 'null':
                    A('  if (!sel_) sel_ = 0x7fff;')
                else:
                    A('  if (!sel_ && verif_exc_isa(verif_exc_tid(), %d)) sel_ = %d; /* %s */' % (self.tid(g.a), self.tid(g.a), g.a))
            if not ins.x['cleanup']:
                A('  if (!sel_) %s' % retz)
            A('  %s.f0 = (u8*)VERIF_EXC_OBJ; %s.f1 = sel_; VERIF_EXC = 0; }' % (r, r))
            return
        if op in ('call', 'invoke'):
            self.emit_call(f, b, ins, body, decls, env, cx, edge, retz, tmpc)
            return
        if op == 'fence': return
        if op == 'atomicrmw':
            # sequential semantics (no interleaving is modelled; C19 is decided by the no-shared-write condition instead)
            pp, vv = cx(ins.ops[0]), cx(ins.ops[1]); T = self.ct(ins.ty)
            cop = {'add': '+', 'sub': '-', 'and': '&', 'or': '|', 'xor': '^'}.get(ins.x['aop'])
            if r: A('%s = *%s;' % (r, pp))
            if ins.x['aop'] == 'xchg': A('*%s = %s;' % (pp, vv))
            elif cop: A('*%s = (%s)(*%s %s %s);' % (pp, T, pp, cop, vv))
            else: raise IRError('atomicrmw ' + ins.x['aop'])
            return
        if op == 'cmpxchg':
            pp, cv, nv = cx(ins.ops[0]), cx(ins.ops[1]), cx(ins.ops[2])
            self.complete(ins.ty)
            A('%s.f0 = *%s; %s.f1 = (u1)(%s.f0 == %s); if (%s.f1) *%s = %s;' % (r, pp, r, r, cv, r, pp, nv))
            return
        if op == 'unsupported':
            raise IRError('unsupported instruction %s in an emitted function: %s' % (ins.x['why'], ins.line))
        raise IRError('emit: unsupported instruction ' + op)

    def emit_call(self, f, b, ins, body, decls, env, cx, edge, retz, tmpc):
        A = body.append
        x = ins.x
        r = env.get(ins.res) if ins.res else None
        cal = x['callee']
        args = ins.ops
        name = cal.a if cal.k == 'global' else None
        tail = None
        def finish(throws=True):
            if ins.op == 'invoke':
                if throws:
                    A('if (VERIF_EXC) %s else %s' % (edge(b.name, x['unwind']), edge(b.name, x['normal'])))
                else:
                    A(edge(b.name, x['normal']))
            elif throws:
                A('if (VERIF_EXC) %s' % retz)
        if name and name.startswith('llvm.'):
            self.emit_intrinsic(name, ins, r, args, A, cx, decls, tmpc)
            finish(False)
            return
        if name == '__cxa_throw':
            ti = args[1]
            while ti.k == 'cexpr': ti = ti.b[0]
            if ti.k != 'global': raise IRError('__cxa_throw with non-constant typeinfo')
            A('verif_throw(%s, %d, (void*)0);' % (cx(args[0]), self.tid(ti.a)))
            d = args[2]
            while d.k == 'cexpr': d = d.b[0]
            if d.k == 'global':
                self.throw_dtors[self.tid(ti.a)] = d.a
            finish(True)
            return
        # byval copies
        argv = []
        for a, at in zip(args, x['aattrs']):
            e = cx(a)
            if 'byval' in at:
                bt = at['byval']
                self.complete(bt)
                tmpc[0] += 1
                tn = 'bv_%d' % tmpc[0]
                decls.append('%s %s;' % (self.ct(bt), tn))
                A('%s = *%s;' % (tn, e))
                e = '(&%s)' % tn
            argv.append(e)
        rt = x['rt']
        direct = False
        if name and name in self.m.funcs:
            fd = self.m.funcs[name]
            if not fd.vararg and len(fd.params) == len(args) and all(p[0].key() == a.ty.key() for p, a in zip(fd.params, args)) \
               and fd.ret.key() == rt.key():
                direct = True
        if direct:
            callee = self.gn(name)
        else:
            if name and name in self.m.funcs and self.m.funcs[name].vararg:
                # vararg external (snprintf): call a per-arity model  name_N(args)
                callee = 'VA%d_%s' % (len(args), san(name))
                self.va_calls.add((callee, rt, tuple(a.ty for a in args)))
            else:
                fty = x['fty'] or Ty('func', rt, [a.ty for a in args], False)
                callee = '((%s)%s)' % (self.ct(PTR(fty)), cx(Val(cal.k, PTR(fty) if cal.k != 'cexpr' else cal.ty, cal.a, cal.b, cal.c)) if cal.k != 'local' else env[cal.a])
                cands = self.vslot_candidates(f, cal, args, rt) if cal.k == 'local' else None
                if cands:
                    # virtual call through vtable slot K: explicit dispatch over the functions that occupy slot K in the vtables of
                    # the module (CBMC's own function-pointer removal would consider every function of a compatible signature)
                    fp = env[cal.a]
                    first = True
                    for cn_ in cands:
                        fd = self.m.funcs[cn_]
                        cargs = ', '.join('(%s)%s' % (self.ct(pt), e) if pt.k == 'ptr' else e for (pt, _), e in zip(fd.params, argv))
                        ccall = '%s(%s)' % (self.gn(cn_), cargs)
                        if r and rt.k != 'void':
                            ccall = '%s = %s%s' % (r, '(%s)' % self.ct(rt) if rt.k == 'ptr' else '', ccall)
                        A('%sif ((void*)%s == (void*)&%s) { %s; }' % ('' if first else 'else ', fp, self.gn(cn_), ccall))
                        first = False
                    A('else { VERIF_MODEL(0, "virtual call: target is not a vtable-slot occupant of this module"); }')
                    finish(self.may_throw(ins))
                    return
        call = '%s(%s)' % (callee, ', '.join(argv))
        if r and rt.k != 'void':
            A('%s = %s;' % (r, call))
        else:
            A('%s;' % call)
        finish(self.may_throw(ins))

    def vslot_candidates(self, f, cal, args, rt):
        nargs = len(args)
        """callee = load(gep(load(obj), K)) or load(load(obj)): the functions in slot K of the reachable vtables (None if the
        pattern does not match or a candidate cannot be called with a plain cast of the arguments)"""
        if not hasattr(self, '_defs'): self._defs = {}
        d = self._defs.get(f.name)
        if d is None:
            d = {}
            for b in f.blocks:
                for i in b.instrs:
                    if i.res: d[i.res] = i
            self._defs[f.name] = d
        def strip(v):
            while v is not None and v.k == 'local' and v.a in d and d[v.a].op == 'bitcast': v = d[v.a].ops[0]
            return v
        i0 = d.get(cal.a)
        if i0 is None or i0.op != 'load': return None
        p = strip(i0.ops[0])
        if p is None or p.k != 'local' or p.a not in d: return None
        ip = d[p.a]; K = 0
        if ip.op == 'getelementptr':
            if len(ip.ops) != 2 or ip.ops[1].k != 'int': return None
            K = ip.ops[1].a
            base = strip(ip.ops[0])
            if base is None or base.k != 'local' or base.a not in d or d[base.a].op != 'load': return None
        elif ip.op != 'load': return None
        out = []
        for gname in sorted(self.rg):
            if not gname.startswith('_ZTV'): continue
            g = self.m.globals[gname]
            init = g.init
            if init is None or init.k != 'struct': continue
            for arr in init.a:
                if arr.k != 'array' or len(arr.a) <= 2 + K: continue
                e = arr.a[2 + K]
                while e is not None and e.k == 'cexpr': e = e.b[0]
                if e is None or e.k != 'global' or e.a not in self.m.funcs: continue
                fd = self.m.funcs[e.a]
                if fd.vararg or len(fd.params) != nargs: continue
                if any(self.isagg(pt) for (pt, _) in fd.params) or self.isagg(fd.ret): return None
                # same signature apart from the static type of `this` (slot K of an unrelated class hierarchy is no candidate)
                if fd.ret.key() != rt.key(): continue
                if any((pt.k == 'ptr') != (a.ty.k == 'ptr') or (j > 0 and pt.key() != a.ty.key()) for j, ((pt, _), a) in enumerate(zip(fd.params, args))): continue
                if e.a not in out: out.append(e.a)
        return out or None

    def emit_intrinsic(self, name, ins, r, args, A, cx, decls, tmpc):
        if name.startswith(NOOP_INTRINSICS): return
        base = name
        if name.startswith('llvm.memcpy') or name.startswith('llvm.memmove'):
            d, s, n = cx(args[0]), cx(args[1]), args[2]
            fn = 'memmove' if 'memmove' in name else 'memcpy'
            if self.opts.get('store_hook'): A('VERIF_STORE(%s, 1);' % d)
            if n.k == 'int':
                src = args[1]
                while src.k == 'cexpr': src = src.b[0]
                if n.a and n.a <= 64 and src.k == 'global' and src.a in self.m.globals and self.m.globals[src.a].const:
                    # brace-initialised local array/struct: copy byte by byte so that CBMC keeps the constant contents per element
                    for k in range(n.a):
                        A('((u8*)%s)[%d] = ((const u8*)%s)[%d];' % (d, k, s, k))
                elif n.a: A('VERIF_MEMCPY_CONST(%s, %s, %d);' % (d, s, n.a))
            else:
                A('verif_%s(%s, %s, %s);' % (fn, d, s, cx(n)))
            return
        if name.startswith('llvm.memset'):
            d, v, n = cx(args[0]), cx(args[1]), args[2]
            if self.opts.get('store_hook'): A('VERIF_STORE(%s, 1);' % d)
            if n.k == 'int':
                if n.a: A('memset(%s, %s, %d);' % (d, v, n.a))
            else:
                A('verif_memset(%s, %s, %s);' % (d, v, cx(n)))
            return
        if name.startswith('llvm.bswap'):
            n = ins.ty.a
            A('%s = __builtin_bswap%d(%s);' % (r, n, cx(args[0]))); return
        if name.startswith('llvm.ctlz') or name.startswith('llvm.cttz'):
            n = ins.ty.a
            a = cx(args[0])
            isl = 'ctlz' in name
            if n == 64: e = '__builtin_%sll(%s)' % ('clz' if isl else 'ctz', a)
            elif n == 32: e = '__builtin_%s(%s)' % ('clz' if isl else 'ctz', a)
            elif n < 32:
                e = ('(__builtin_clz((u32)%s) - %d)' % (a, 32 - n)) if isl else '__builtin_ctz((u32)%s)' % a
            else: raise IRError(name)
            A('%s = (%s == 0) ? (%s)%d : (%s)%s;' % (r, a, self.ct(ins.ty), n, self.ct(ins.ty), e)); return
        if name.startswith('llvm.ctpop'):
            A('%s = (%s)__builtin_popcountll((u64)%s);' % (r, self.ct(ins.ty), cx(args[0]))); return
        if name.startswith('llvm.abs'):
            n = ins.ty.a
            A('%s = ((s%d)%s < 0) ? (%s)(0 - %s) : %s;' % (r, n, cx(args[0]), self.ct(ins.ty), cx(args[0]), cx(args[0]))); return
        m = re.match(r'llvm\.(u|s)(min|max)\.i(\d+)', name)
        if m:
            sg, mm, n = m.group(1), m.group(2), int(m.group(3))
            a, c = cx(args[0]), cx(args[1])
            cast = '(s%d)' % n if sg == 's' else ''
            cop = '<' if mm == 'min' else '>'
            A('%s = (%s%s %s %s%s) ? %s : %s;' % (r, cast, a, cop, cast, c, a, c)); return
        m = re.match(r'llvm\.(u|s)(add|sub|mul)\.with\.overflow\.i(\d+)', name)
        if m:
            sg, o, n = m.group(1), m.group(2), int(m.group(3))
            a, c = cx(args[0]), cx(args[1])
            T = ('u%d' if sg == 'u' else 's%d') % n
            tmpc[0] += 1
            tn = 'ov_%d' % tmpc[0]
            decls.append('%s %s;' % (T, tn))
            A('%s.f1 = (u1)__builtin_%s_overflow((%s)%s, (%s)%s, &%s); %s.f0 = (u%d)%s;' % (r, o, T, a, T, c, tn, r, n, tn)); return
        m = re.match(r'llvm\.(u|s)(add|sub)\.sat\.i(\d+)', name)
        if m:
            sg, o, n = m.group(1), m.group(2), int(m.group(3))
            a, c = cx(args[0]), cx(args[1])
            if sg == 'u':
                if o == 'add': A('%s = ((u%d)(%s + %s) < %s) ? (u%d)~(u%d)0 : (u%d)(%s + %s);' % (r, n, a, c, a, n, n, n, a, c))
                else: A('%s = (%s < %s) ? (u%d)0 : (u%d)(%s - %s);' % (r, a, c, n, n, a, c))
                return
        m = re.match(r'llvm\.fsh(l|r)\.i(\d+)', name)
        if m:
            n = int(m.group(2))
            a, c, s = cx(args[0]), cx(args[1]), cx(args[2])
            T = self.ct(ins.ty)
            if m.group(1) == 'l':
                A('{ u32 sh_ = (u32)(%s %% %d); %s = sh_ ? (%s)((%s << sh_) | (%s >> (%d - sh_))) : %s; }' % (s, n, r, T, a, c, n, a))
            else:
                A('{ u32 sh_ = (u32)(%s %% %d); %s = sh_ ? (%s)((%s << (%d - sh_)) | (%s >> sh_)) : %s; }' % (s, n, r, T, a, n, c, c))
            return
        if name == 'llvm.eh.typeid.for':
            g = args[0]
            while g.k == 'cexpr': g = g.b[0]
            A('%s = %d;' % (r, self.tid(g.a))); return
        if name == 'llvm.assume':
            A('VERIF_UB(!%s, "llvm.assume violated");' % cx(args[0])); return
        if name.startswith('llvm.expect'):
            A('%s = %s;' % (r, cx(args[0]))); return
        if name == 'llvm.trap' or name == 'llvm.debugtrap':
            A('VERIF_TRAP("llvm.trap");'); return
        if name == 'llvm.ubsantrap':
            A('VERIF_UBSAN(%s);' % cx(args[0])); return
        if name.startswith('llvm.fabs'):
            A('%s = (%s < 0 || (%s == 0 && 1/%s < 0)) ? -%s : %s;' % (r, cx(args[0]), cx(args[0]), cx(args[0]), cx(args[0]), cx(args[0]))); return
        if name.startswith('llvm.is.constant'):
            A('%s = 0;' % r); return
        if name.startswith('llvm.objectsize'):
            A('%s = (%s)~(%s)0;' % (r, self.ct(ins.ty), self.ct(ins.ty))); return
        for fn in ('floor', 'ceil', 'trunc', 'round', 'sqrt', 'rint', 'nearbyint'):
            if name.startswith('llvm.' + fn + '.'):
                suf = 'f' if ins.ty.k == 'float' else ''
                A('%s = __builtin_%s%s(%s);' % (r, fn, suf, cx(args[0]))); return
        raise IRError('unsupported intrinsic ' + name)

    # ------------------------------------------------------------ module
    def emit(self):
        m = self.m
        self.va_calls = set()
        self.throw_dtors = {}
        for n, f in self.m.funcs.items():
            if f.blocks is not None and san(n) in self.model_names and f.linkage != 'x':
                self.overrides.add(n)
        self.opt_used = set()
        for n in list(self.overrides):
            if san(n) in self.opt_model_names and san(n) not in self.model_names:
                self.opt_used.add(san(n))
        self.reach()
        STDT = [('BAD_ALLOC', '_ZTISt9bad_alloc'), ('LENGTH_ERROR', '_ZTISt12length_error'), ('LOGIC_ERROR', '_ZTISt11logic_error'),
                ('OUT_OF_RANGE', '_ZTISt12out_of_range'), ('INVALID_ARGUMENT', '_ZTISt16invalid_argument'),
                ('RUNTIME_ERROR', '_ZTISt13runtime_error'), ('EXCEPTION', '_ZTISt9exception')]
        for (_, n) in STDT: self.tid(n)
        for t in ('u1', 'u8', 'u16', 'u32', 'u64', 'u128', 's8', 's16', 's32', 's64', 's128', 'verif_typeinfo', 'RETZ'):
            self.used_gnames.add(t)
        # names for functions first (keeps harness names intact)
        for n in sorted(self.rf): self.gn(n)
        protos, fbodies, gdecls, gdefs, shims, uses = [], [], [], [], [], []
        missing = []
        for n in sorted(self.rf):
            f = m.funcs[n]
            if n.startswith('llvm.'): continue
            is_decl = f.blocks is None or n in self.overrides
            if f.vararg and is_decl:
                continue    # handled by VA models
            protos.append(self.proto(f) + ';')
            if is_decl:
                cn = self.gn(n)[2:]
                if cn in self.model_names or cn in self.opt_used:
                    uses.append(cn)
                    mpref = 'M_' if cn in self.model_names else 'MO_'
                    # typed shim -> generic model
                    def conv(t, e):
                        if t.k == 'ptr': return '(void*)' + e
                        return e
                    call = '%s%s(%s)' % (mpref, cn, ', '.join(conv(t, 'a_' + san(pn)) for (t, pn) in f.params))
                    if f.ret.k == 'void': bodyl = call + ';'
                    elif f.ret.k == 'ptr': bodyl = 'return (%s)%s;' % (self.ct(f.ret), call)
                    elif self.isagg(f.ret):
                        # two-register struct return: the model returns struct verif_ret2 {u64 a, b;}
                        self.complete(f.ret)
                        rr = self.resolve(f.ret)
                        if rr.k != 'struct' or len(rr.a) > 2: raise IRError('model with unsupported aggregate return: ' + n)
                        asg = ' '.join('x_.f%d = (%s)r_.%s;' % (i, self.ct(ft), 'ab'[i]) for i, ft in enumerate(rr.a))
                        bodyl = 'struct verif_ret2 r_ = %s; %s x_; %s return x_;' % (call, self.ct(f.ret), asg)
                    else: bodyl = 'return %s;' % call
                    shims.append(self.proto(f) + ' { ' + bodyl + ' }')
                elif n in self.stubs:
                    nd = ''
                    if f.ret.k != 'void':
                        if self.isagg(f.ret): self.complete(f.ret)
                        nd = '%s r_; return r_;' % self.ct(f.ret)
                    shims.append(self.proto(f) + ' { ' + nd + ' }')
                else:
                    missing.append(n)
        if missing:
            raise IRError('no model for external function(s): ' + ' '.join(missing))
        for n in sorted(self.rf):
            f = m.funcs[n]
            if f.blocks is None or n in self.overrides or n.startswith('llvm.'): continue
            if n in self.cuts:
                nd = ''
                if f.ret.k != 'void':
                    if self.isagg(f.ret): self.complete(f.ret)
                    nd = ' %s r_; return r_;' % self.ct(f.ret)
                fbodies.append(self.proto(f) + ' { VERIF_MODEL(0, "cut function reached (stated as outside the obligation)");' + nd + ' }')
                fbodies.append('')
                continue
            fbodies += self.emit_function(f)
            fbodies.append('')
        for n in sorted(self.rg):
            g = m.globals[n]
            if n.startswith('_ZTI') or n.startswith('llvm.'): continue
            self.complete(g.ty) if self.isagg(g.ty) else self.ct(g.ty)
            cn = self.gn(n)
            if g.tls: self.warnings.append('thread_local global %s treated as plain global' % n)
            if g.init is None:
                # external object (vtable of a libstdc++ class, __dso_handle ...): zero-filled stand-in of the declared type
                gdecls.append('%s %s;' % (self.ct(g.ty), cn))
                if not n.startswith('_ZTV') and n != '__dso_handle':
                    self.warnings.append('external global %s defined as a zero-filled object' % n)
                continue
            cq = 'const ' if g.const else ''
            gdecls.append('extern %s%s %s;' % (cq, self.ct(g.ty), cn))
            gdefs.append('%s%s %s = %s;' % (cq, self.ct(g.ty), cn, self.init(g.init)))
        va = []
        for (callee, rt, atys) in sorted(self.va_calls, key=lambda z: z[0]):
            uses.append(callee)
            va.append('%s %s(%s);' % (self.ct(rt), callee, ', '.join(self.ct(t) for t in atys)))
        isa = self.emit_isa()
        out = ['/* generated by ir2c.py - do not edit */', '#include "verif_prelude.h"']
        for n in sorted(self.bv_widths):
            out.append('VERIF_BV(%d)' % n)
        out += self.fwd + self.defs
        out.append('#define VERIF_NTYPEINFO %d' % (len(self.tids) + 2))
        out.append('static u8 verif_typeinfo[VERIF_NTYPEINFO];')
        out += isa
        out += gdecls + protos + va
        for (mn, n) in STDT: out.append('#define VERIF_TID_%s %d' % (mn, self.tids[n]))
        for u in uses: out.append('#define USES_%s 1' % u)
        if self.opts.get('store_hook'):
            mut = []
            for n in sorted(self.rg):
                g = m.globals[n]
                if n.startswith('_ZTI') or n.startswith('llvm.') or g.const or g.init is None: continue
                if n.startswith('_ZGV'): continue          # guard variables of function-local statics (ABI-serialised)
                mut.append(self.gn(n))
            out.append('/* C19: every store executed inside the operation window must not hit a mutable module-level object */')
            out.append('static void verif_store_check(const void *p) {')
            out.append('  if (!verif_symbolic || verif_guard_depth) return;')
            for g in mut:
                out.append('  VERIF_ASSERT(__CPROVER_POINTER_OBJECT(p) != __CPROVER_POINTER_OBJECT(&%s), "SHARED-WRITE: store into mutable global %s");' % (g, g))
            out.append('}')
            out.append('#define VERIF_STORE(p, n) verif_store_check((const void *)(p))')
            out.append('/* mutable globals watched: %s */' % ' '.join(mut))
        out.append('#include "verif_models.h"')
        out += shims + gdefs + [''] + fbodies
        out.append('static void verif_exc_destroy(s32 tid, void *obj) {')
        out.append('  switch (tid) {')
        for t, d in sorted(self.throw_dtors.items()):
            fd = m.funcs[d]
            out.append('  case %d: %s((%s)obj); break;' % (t, self.gn(d), self.ct(fd.params[0][0])))
        out.append('  default: break; }')
        out.append('}')
        out.append('void verif_global_ctors(void) { %s }' % ' '.join('%s();' % self.gn(c) for c in m.ctors))
        out.append('/* typeinfo ids: %s */' % ', '.join('%s=%d' % kv for kv in self.tids.items()))
        return '\n'.join(out) + '\n'


def main():
    ap = argparse.ArgumentParser()
    ap.add_argument('ll'); ap.add_argument('out')
    ap.add_argument('--roots', required=True)
    ap.add_argument('--override', default='')
    ap.add_argument('--stub', default='')
    ap.add_argument('--cut', default='')
    ap.add_argument('--models', default=os.path.join(os.path.dirname(os.path.abspath(__file__)), 'models', 'verif_models.h'))
    ap.add_argument('--store-hook', action='store_true')
    ap.add_argument('--list-functions', action='store_true')
    a = ap.parse_args()
    mod = parse_module(open(a.ll).read())
    mtxt = open(a.models).read()
    opt_model_names = set(re.findall(r'\bMO_(\w+)\s*\(', mtxt))
    model_names = (set(re.findall(r'\bM_(\w+)\s*\(', mtxt)) | set(re.findall(r'#ifdef USES_(\w+)', mtxt))) - opt_model_names
    em = Emitter(mod, [r for r in a.roots.split(',') if r], [o for o in a.override.split(',') if o],
                 [s for s in a.stub.split(',') if s], model_names, {'store_hook': a.store_hook, 'opt_model_names': opt_model_names, 'cut': a.cut})
    try:
        txt = em.emit()
    except IRError as e:
        sys.stderr.write('ir2c: ERROR: %s\n' % e)
        sys.exit(2)
    open(a.out, 'w').write(txt)
    for w in em.warnings: sys.stderr.write('ir2c: warning: %s\n' % w)
    if a.list_functions:
        for n in sorted(em.rf):
            f = mod.funcs[n]
            if f.blocks is not None and n not in em.overrides: print(n)

if __name__ == '__main__':
    main()
