#!/usr/bin/env python3
"""LLVM-14 textual IR parser (typed pointers) - just enough for clang++-14 -O1 output.

Produces a Module with named struct types, globals, function declarations and
function definitions (basic blocks of Instr objects).  Anything not understood raises
IRError so that an unsupported construct is an engine error, never a silent pass.
"""
import re

class IRError(Exception):
    pass

# ------------------------------------------------------------------ types
class Ty:
    __slots__ = ('k', 'a', 'b', 'c')
    # k: 'void','int','float','double','x86_fp80','ptr','arr','struct','named','func','label','metadata','opaque','vec'
    def __init__(self, k, a=None, b=None, c=None):
        self.k, self.a, self.b, self.c = k, a, b, c
    def key(self):
        k = self.k
        if k == 'int': return 'i%d' % self.a
        if k in ('void', 'float', 'double', 'x86_fp80', 'label', 'metadata', 'opaque', 'half'): return k
        if k == 'ptr': return self.a.key() + '*'
        if k == 'arr': return '[%d x %s]' % (self.a, self.b.key())
        if k == 'vec': return '<%d x %s>' % (self.a, self.b.key())
        if k == 'named': return '%' + self.a
        if k == 'struct': return ('<{%s}>' if self.b else '{%s}') % ','.join(t.key() for t in self.a)
        if k == 'func': return '%s(%s%s)' % (self.a.key(), ','.join(t.key() for t in self.b), ',...' if self.c else '')
        raise IRError('key ' + k)
    def __repr__(self): return self.key()
    def __eq__(self, o): return isinstance(o, Ty) and self.key() == o.key()
    def __hash__(self): return hash(self.key())

VOID = Ty('void')
def INT(n): return Ty('int', n)
def PTR(t): return Ty('ptr', t)
I8P = PTR(INT(8))

# ------------------------------------------------------------------ values
class Val:
    __slots__ = ('k', 'ty', 'a', 'b', 'c')
    # k: local, global, int, float, null, undef, zero, cexpr(op, args, extra), struct(list), array(list), str(bytes)
    def __init__(self, k, ty, a=None, b=None, c=None):
        self.k, self.ty, self.a, self.b, self.c = k, ty, a, b, c
    def __repr__(self): return 'Val(%s,%s,%r)' % (self.k, self.ty, self.a)

class Instr:
    __slots__ = ('op', 'res', 'ty', 'ops', 'x', 'line')
    def __init__(self, op, res=None, ty=None, ops=None, x=None, line=''):
        self.op, self.res, self.ty, self.ops, self.x, self.line = op, res, ty, ops or [], x or {}, line

class Block:
    def __init__(self, name): self.name, self.instrs = name, []

class Func:
    def __init__(self, name, ret, params, vararg, attrs):
        self.name, self.ret, self.params, self.vararg, self.attrs = name, ret, params, vararg, attrs
        self.blocks = None          # None => declaration
        self.param_attrs = []
        self.linkage = ''
    @property
    def fty(self): return Ty('func', self.ret, [p[0] for p in self.params], self.vararg)

class Global:
    def __init__(self, name, ty, init, const, external):
        self.name, self.ty, self.init, self.const, self.external = name, ty, init, const, external
        self.tls = False

class Module:
    def __init__(self):
        self.types = {}       # name -> Ty('struct') or Ty('opaque')
        self.globals = {}
        self.funcs = {}
        self.attr_groups = {}
        self.ctors = []
        self.aliases = {}

# ------------------------------------------------------------------ lexer
TOK = re.compile(r'''
   (?P<ws>\s+)
 | (?P<cstr>c"(?:[^"\\]|\\[0-9a-fA-F]{2}|\\\\)*")
 | (?P<qname>[%@$]"(?:[^"\\]|\\.)*")
 | (?P<name>[%@$][-a-zA-Z$._0-9]+)
 | (?P<str>"(?:[^"\\]|\\.)*")
 | (?P<meta>![-a-zA-Z$._0-9]*)
 | (?P<attr>\#[0-9]+)
 | (?P<hex>0x[KLMHR]?[0-9a-fA-F]+)
 | (?P<float>-?[0-9]+\.[0-9]*(?:[eE][-+]?[0-9]+)?)
 | (?P<int>-?[0-9]+)
 | (?P<dots>\.\.\.)
 | (?P<word>[a-zA-Z_][-a-zA-Z_0-9.]*)
 | (?P<p>[()\[\]{}<>,=*:|])
''', re.X)

def lex(s):
    out = []
    i, n = 0, len(s)
    while i < n:
        if s[i] == ';':
            break
        m = TOK.match(s, i)
        if not m:
            raise IRError('lex error at %r' % s[i:i + 40])
        i = m.end()
        k = m.lastgroup
        if k == 'ws':
            continue
        out.append((k, m.group()))
    return out

def unq(name):
    """strip sigil and quotes"""
    n = name[1:]
    if n.startswith('"'):
        n = n[1:-1]
        n = re.sub(r'\\([0-9a-fA-F]{2})', lambda m: chr(int(m.group(1), 16)), n)
    return n

PARAM_ATTRS = {'noundef', 'nonnull', 'nocapture', 'readonly', 'writeonly', 'noalias', 'signext', 'zeroext',
               'returned', 'nest', 'inreg', 'immarg', 'readnone', 'nofree', 'swiftself', 'swifterror', 'inalloca'}
PARAM_ATTRS_ARG = {'sret', 'byval', 'dereferenceable', 'dereferenceable_or_null', 'byref', 'preallocated', 'elementtype'}
LINKAGE = {'private', 'internal', 'available_externally', 'linkonce', 'weak', 'common', 'appending', 'extern_weak',
           'linkonce_odr', 'weak_odr', 'external', 'dso_local', 'dso_preemptable', 'default', 'hidden', 'protected',
           'unnamed_addr', 'local_unnamed_addr', 'thread_local', 'externally_initialized'}
CCONV = {'ccc', 'fastcc', 'coldcc', 'tail', 'musttail', 'notail'}
FMF = {'fast', 'nnan', 'ninf', 'nsz', 'arcp', 'contract', 'afn', 'reassoc'}
BINOPS = {'add', 'sub', 'mul', 'udiv', 'sdiv', 'urem', 'srem', 'shl', 'lshr', 'ashr', 'and', 'or', 'xor',
          'fadd', 'fsub', 'fmul', 'fdiv', 'frem'}
CASTS = {'trunc', 'zext', 'sext', 'fptrunc', 'fpext', 'fptoui', 'fptosi', 'uitofp', 'sitofp', 'ptrtoint', 'inttoptr',
         'bitcast', 'addrspacecast'}

class P:
    """token stream parser"""
    def __init__(self, toks, mod, line=''):
        self.t, self.i, self.mod, self.line = toks, 0, mod, line
    def peek(self, o=0):
        j = self.i + o
        return self.t[j] if j < len(self.t) else ('eof', '')
    def pv(self, o=0): return self.peek(o)[1]
    def next(self):
        t = self.peek(); self.i += 1; return t
    def eat(self, v):
        if self.pv() == v:
            self.i += 1; return True
        return False
    def expect(self, v):
        if not self.eat(v):
            raise IRError('expected %r got %r in: %s' % (v, self.pv(), self.line))
    def done(self): return self.i >= len(self.t)

    # ---- types
    def type(self):
        k, v = self.next()
        if k == 'word':
            if v == 'void': t = VOID
            elif re.fullmatch(r'i[0-9]+', v): t = INT(int(v[1:]))
            elif v in ('float', 'double', 'x86_fp80', 'label', 'metadata', 'half'): t = Ty(v)
            elif v == 'opaque': t = Ty('opaque')
            elif v == 'ptr': raise IRError('opaque pointers not supported')
            else: raise IRError('bad type %r in: %s' % (v, self.line))
        elif k in ('name', 'qname') and v[0] == '%':
            t = Ty('named', unq(v))
        elif v == '{':
            t = Ty('struct', self._struct_body('}'), False)
        elif v == '<':
            if self.pv() == '{':
                self.next()
                el = self._struct_body('}')
                self.expect('>')
                t = Ty('struct', el, True)
            else:
                n = int(self.next()[1]); self.expect('x'); e = self.type(); self.expect('>')
                t = Ty('vec', n, e)
        elif v == '[':
            n = int(self.next()[1]); self.expect('x'); e = self.type(); self.expect(']')
            t = Ty('arr', n, e)
        else:
            raise IRError('bad type token %r in: %s' % (v, self.line))
        while True:
            if self.pv() == '*':
                self.next(); t = PTR(t)
            elif self.pv() == '(':
                # function type
                self.next()
                ps, va = [], False
                if not self.eat(')'):
                    while True:
                        if self.pv() == '...':
                            self.next(); va = True
                        else:
                            ps.append(self.type())
                            self.skip_param_attrs()
                        if self.eat(')'): break
                        self.expect(',')
                t = Ty('func', t, ps, va)
            elif self.pv() == 'addrspace':
                raise IRError('addrspace')
            else:
                break
        return t

    def _struct_body(self, close):
        el = []
        if self.eat(close): return el
        while True:
            el.append(self.type())
            if self.eat(close): break
            self.expect(',')
        return el

    def skip_param_attrs(self):
        got = {}
        while True:
            k, v = self.peek()
            if k != 'word': break
            if v in PARAM_ATTRS:
                self.next(); got[v] = True
            elif v == 'align':
                self.next()
                if self.eat('('):
                    self.next(); self.expect(')')
                else:
                    self.next()
            elif v in PARAM_ATTRS_ARG:
                self.next()
                if self.eat('('):
                    if v in ('sret', 'byval', 'byref', 'preallocated', 'elementtype'):
                        got[v] = self.type()
                    else:
                        got[v] = self.next()[1]
                    self.expect(')')
                else:
                    got[v] = True
            else:
                break
        return got

    # ---- values
    def tval(self):
        t = self.type()
        self.skip_param_attrs()
        return self.value(t)

    def value(self, t):
        k, v = self.next()
        if k in ('name', 'qname'):
            if v[0] == '%': return Val('local', t, unq(v))
            if v[0] == '@': return Val('global', t, unq(v))
        if k == 'int': return Val('int', t, int(v))
        if k == 'float': return Val('float', t, float(v))
        if k == 'hex':
            return Val('fhex', t, v)
        if k == 'cstr':
            body = v[2:-1]
            bs = bytearray()
            i = 0
            while i < len(body):
                if body[i] == '\\':
                    if body[i + 1] == '\\':
                        bs.append(92); i += 2
                    else:
                        bs.append(int(body[i + 1:i + 3], 16)); i += 3
                else:
                    bs.append(ord(body[i])); i += 1
            return Val('str', t, bytes(bs))
        if k == 'word':
            if v == 'null': return Val('null', t)
            if v in ('undef', 'poison'): return Val('undef', t)
            if v == 'zeroinitializer': return Val('zero', t)
            if v == 'true': return Val('int', t, 1)
            if v == 'false': return Val('int', t, 0)
            if v in CASTS:
                self.expect('(')
                src = self.tval()
                self.expect('to')
                dt = self.type()
                self.expect(')')
                return Val('cexpr', t, v, [src], dt)
            if v == 'getelementptr':
                inb = self.eat('inbounds')
                self.expect('(')
                bt = self.type(); self.expect(',')
                args = [self.tval()]
                while self.eat(','):
                    self.eat('inrange')
                    args.append(self.tval())
                self.expect(')')
                return Val('cexpr', t, 'getelementptr', args, bt)
            if v in BINOPS:
                while self.pv() in ('nuw', 'nsw', 'exact'): self.next()
                self.expect('(')
                a = self.tval(); self.expect(','); b = self.tval(); self.expect(')')
                return Val('cexpr', t, v, [a, b])
            if v in ('icmp', 'fcmp'):
                pred = self.next()[1]
                self.expect('(')
                a = self.tval(); self.expect(','); b = self.tval(); self.expect(')')
                return Val('cexpr', t, v, [a, b], pred)
            if v == 'select':
                self.expect('(')
                a = self.tval(); self.expect(','); b = self.tval(); self.expect(','); c = self.tval(); self.expect(')')
                return Val('cexpr', t, v, [a, b, c])
            if v == 'blockaddress' or v == 'dso_local_equivalent' or v == 'no_cfi':
                raise IRError('unsupported constant ' + v)
        if v == '{':
            return Val('struct', t, self._agg('}'))
        if v == '[':
            return Val('array', t, self._agg(']'))
        if v == '<':
            if self.pv() == '{':
                self.next()
                el = self._agg('}')
                self.expect('>')
                return Val('struct', t, el)
            raise IRError('vector constant in: ' + self.line)
        raise IRError('bad value %r (%s) in: %s' % (v, k, self.line))

    def _agg(self, close):
        el = []
        if self.eat(close): return el
        while True:
            el.append(self.tval())
            if self.eat(close): break
            self.expect(',')
        return el

    def skip_meta_tail(self):
        """skip trailing ', !tbaa !5, !range !7' and ', align N'"""
        x = {}
        while self.eat(','):
            k, v = self.peek()
            if v == 'align':
                self.next(); x['align'] = int(self.next()[1])
            elif k == 'meta':
                self.next()
                k2, v2 = self.peek()
                if k2 == 'meta':
                    self.next()
                    if v2 == '!' and self.pv() == '{':
                        # inline metadata node
                        depth = 0
                        while True:
                            tv = self.next()[1]
                            if tv == '{': depth += 1
                            if tv == '}':
                                depth -= 1
                                if depth == 0: break
            else:
                raise IRError('bad tail %r in: %s' % (v, self.line))
        return x


def parse_func_header(p, mod, is_def):
    # after 'define'/'declare'
    while p.peek()[0] == 'word' and (p.pv() in LINKAGE or p.pv() in CCONV or p.pv() in PARAM_ATTRS or p.pv() == 'align'
                                      or p.pv() in PARAM_ATTRS_ARG):
        if p.pv() in PARAM_ATTRS or p.pv() == 'align' or p.pv() in PARAM_ATTRS_ARG:
            p.skip_param_attrs()
        else:
            w = p.next()[1]
    # return type; parse manually to avoid treating '(' as function type
    rt = parse_ret_type(p)
    k, v = p.next()
    if not (k in ('name', 'qname') and v[0] == '@'):
        raise IRError('function name expected: ' + p.line)
    name = unq(v)
    p.expect('(')
    params, pattrs, va = [], [], False
    if not p.eat(')'):
        while True:
            if p.pv() == '...':
                p.next(); va = True
            else:
                t = p.type()
                at = p.skip_param_attrs()
                pn = None
                if p.peek()[0] in ('name', 'qname') and p.pv()[0] == '%':
                    pn = unq(p.next()[1])
                params.append((t, pn)); pattrs.append(at)
            if p.eat(')'): break
            p.expect(',')
    attrs = set()
    while not p.done():
        k, v = p.next()
        if k == 'attr':
            attrs.add(v)
        elif k == 'word':
            attrs.add(v)
            if v in ('personality',):
                p.type(); p.next()  # type + value
            elif v in ('section', 'comdat', 'gc', 'prefix', 'prologue'):
                if p.pv() == '(':
                    while p.next()[1] != ')': pass
                elif p.peek()[0] == 'str':
                    p.next()
            elif v == 'align':
                p.next()
        elif v == '{':
            break
    f = Func(name, rt, params, va, attrs)
    f.param_attrs = pattrs
    return f

def parse_ret_type(p):
    """type not followed by '(' function-type continuation (the '(' belongs to the param list) """
    # parse base type, then '*'s; if we see '(' we must decide: function pointer return type looks like 'i8* (i32)* @f('
    save = p.i
    t = p.type()
    # p.type() greedily consumed '(...)' as function type if present; detect by checking next token is a name '@..'
    k, v = p.peek()
    if k in ('name', 'qname') and v[0] == '@':
        return t
    # over-consumed: re-parse non-greedy
    p.i = save
    return parse_type_nogreedy(p)

def parse_type_nogreedy(p):
    # parse a type, but stop before a '(' that directly follows and is preceded by @name -- handled by caller;
    # here: parse simple type + '*'s only, then allow function types only if followed by '*'
    k, v = p.next()
    p.i -= 1
    # temporarily cut tokens at first '@' name
    j = p.i
    while j < len(p.t) and not (p.t[j][0] in ('name', 'qname') and p.t[j][1][0] == '@'):
        j += 1
    sub = P(p.t[p.i:j], p.mod, p.line)
    t = sub.type()
    sub.skip_param_attrs()
    if not sub.done():
        raise IRError('ret type parse: ' + p.line)
    p.i = j
    return t


def parse_call_like(p, mod, op, res, line):
    """call / invoke after the opcode word"""
    while p.peek()[0] == 'word' and (p.pv() in CCONV or p.pv() in FMF or p.pv() in PARAM_ATTRS or p.pv() in PARAM_ATTRS_ARG
                                      or p.pv() == 'align'):
        if p.pv() in CCONV or p.pv() in FMF: p.next()
        else: p.skip_param_attrs()
    # type: either return type or full function type (for varargs) followed by callee
    save = p.i
    t = p.type()
    k, v = p.peek()
    fty = None
    if t.k == 'func':
        # could be 'i32 (i8*, ...) @f(' (full fn type) or return-type-is-funcptr... or over-consumed 'void (args)' hmm
        # full function type given: next token is callee value
        fty = t
        rt = t.a
    elif t.k == 'ptr' and t.a.k == 'func' and not (k in ('name', 'qname') or v in ('bitcast', 'inttoptr')):
        rt = t
    else:
        rt = t
    # callee
    k, v = p.peek()
    if k in ('name', 'qname'):
        p.next()
        callee = Val('local' if v[0] == '%' else 'global', None, unq(v))
    elif v in ('bitcast', 'inttoptr'):
        callee = p.value(None)
    elif v == 'asm':
        raise IRError('inline asm: ' + line)
    else:
        raise IRError('bad callee %r in: %s' % (v, line))
    p.expect('(')
    args, aattrs = [], []
    if not p.eat(')'):
        while True:
            at = p.type()
            pa = p.skip_param_attrs()
            if at.k == 'metadata':
                # metadata arg (dbg intrinsics) - swallow
                while p.pv() not in (',', ')'):
                    p.next()
                args.append(Val('undef', at)); aattrs.append(pa)
            else:
                args.append(p.value(at)); aattrs.append(pa)
            if p.eat(')'): break
            p.expect(',')
    attrs = set()
    x = {'rt': rt, 'fty': fty, 'callee': callee, 'aattrs': aattrs}
    while not p.done():
        k, v = p.peek()
        if k == 'attr':
            attrs.add(v); p.next()
        elif k == 'word' and v == 'to':
            p.next(); p.expect('label'); x['normal'] = unq(p.next()[1])
            p.expect('unwind'); p.expect('label'); x['unwind'] = unq(p.next()[1])
        elif k == 'word':
            attrs.add(v); p.next()
        elif v == '[':
            # operand bundles
            while p.next()[1] != ']': pass
        elif v == ',':
            p.skip_meta_tail()
        else:
            raise IRError('call tail %r: %s' % (v, line))
    x['attrs'] = attrs
    return Instr(op, res, rt, args, x, line)


def parse_instr(toks, mod, line):
    p = P(toks, mod, line)
    res = None
    if p.peek()[0] in ('name', 'qname') and p.pv(1) == '=':
        res = unq(p.next()[1]); p.next()
    k, op = p.next()
    if op in ('tail', 'musttail', 'notail'):
        k, op = p.next()
    if op in BINOPS:
        fl = set()
        while p.pv() in ('nuw', 'nsw', 'exact') or p.pv() in FMF: fl.add(p.next()[1])
        t = p.type(); a = p.value(t); p.expect(','); b = p.value(t)
        p.skip_meta_tail()
        return Instr(op, res, t, [a, b], {'flags': fl}, line)
    if op == 'fneg':
        while p.pv() in FMF: p.next()
        t = p.type(); a = p.value(t); p.skip_meta_tail()
        return Instr(op, res, t, [a], None, line)
    if op in CASTS:
        a = p.tval(); p.expect('to'); t = p.type(); p.skip_meta_tail()
        return Instr(op, res, t, [a], None, line)
    if op in ('icmp', 'fcmp'):
        while p.pv() in FMF: p.next()
        pred = p.next()[1]
        t = p.type(); a = p.value(t); p.expect(','); b = p.value(t); p.skip_meta_tail()
        return Instr(op, res, INT(1), [a, b], {'pred': pred}, line)
    if op == 'select':
        while p.pv() in FMF: p.next()
        c = p.tval(); p.expect(','); a = p.tval(); p.expect(','); b = p.tval(); p.skip_meta_tail()
        return Instr(op, res, a.ty, [c, a, b], None, line)
    if op == 'phi':
        while p.pv() in FMF: p.next()
        t = p.type()
        inc = []
        while True:
            p.expect('[')
            v = p.value(t); p.expect(',')
            lb = unq(p.next()[1]); p.expect(']')
            inc.append((v, lb))
            if p.pv() == ',' and p.pv(1) == '[':
                p.next()
            else:
                break
        p.skip_meta_tail()
        return Instr(op, res, t, [], {'inc': inc}, line)
    if op == 'br':
        if p.eat('label'):
            d = unq(p.next()[1]); p.skip_meta_tail()
            return Instr('br', None, None, [], {'dest': d}, line)
        c = p.tval(); p.expect(','); p.expect('label'); a = unq(p.next()[1]); p.expect(','); p.expect('label')
        b = unq(p.next()[1]); p.skip_meta_tail()
        return Instr('condbr', None, None, [c], {'t': a, 'f': b}, line)
    if op == 'switch':
        c = p.tval(); p.expect(','); p.expect('label'); d = unq(p.next()[1])
        p.expect('[')
        cases = []
        while not p.eat(']'):
            v = p.tval(); p.expect(','); p.expect('label'); cases.append((v, unq(p.next()[1])))
        p.skip_meta_tail()
        return Instr('switch', None, None, [c], {'default': d, 'cases': cases}, line)
    if op == 'ret':
        if p.eat('void'):
            p.skip_meta_tail()
            return Instr('ret', None, VOID, [], None, line)
        v = p.tval(); p.skip_meta_tail()
        return Instr('ret', None, v.ty, [v], None, line)
    if op == 'unreachable':
        return Instr('unreachable', line=line)
    if op == 'resume':
        v = p.tval(); p.skip_meta_tail()
        return Instr('resume', None, None, [v], None, line)
    if op == 'load':
        p.eat('atomic')
        vol = p.eat('volatile')
        t = p.type(); p.expect(','); a = p.tval()
        while p.peek()[0] == 'word' and p.pv() in ('unordered', 'monotonic', 'acquire', 'seq_cst', 'syncscope'): p.next()
        p.skip_meta_tail()
        return Instr('load', res, t, [a], None, line)
    if op == 'store':
        p.eat('atomic')
        p.eat('volatile')
        v = p.tval(); p.expect(','); a = p.tval()
        while p.peek()[0] == 'word' and p.pv() in ('unordered', 'monotonic', 'release', 'seq_cst', 'syncscope'): p.next()
        p.skip_meta_tail()
        return Instr('store', None, None, [v, a], None, line)
    if op == 'alloca':
        p.eat('inalloca')
        t = p.type()
        cnt = None
        if p.pv() == ',' and p.pv(1) != 'align' and p.peek(1)[0] != 'meta':
            p.next(); cnt = p.tval()
        tail = p.skip_meta_tail()
        return Instr('alloca', res, PTR(t), [cnt] if cnt else [], {'aty': t, 'align': tail.get('align')}, line)
    if op == 'getelementptr':
        inb = p.eat('inbounds')
        bt = p.type(); p.expect(',')
        args = [p.tval()]
        while p.pv() == ',' and p.peek(1)[0] != 'meta':
            p.next(); args.append(p.tval())
        p.skip_meta_tail()
        return Instr('getelementptr', res, None, args, {'bt': bt, 'inbounds': inb}, line)
    if op == 'extractvalue':
        a = p.tval(); idx = []
        while p.pv() == ',' and p.peek(1)[0] == 'int':
            p.next(); idx.append(int(p.next()[1]))
        p.skip_meta_tail()
        return Instr(op, res, None, [a], {'idx': idx}, line)
    if op == 'insertvalue':
        a = p.tval(); p.expect(','); b = p.tval(); idx = []
        while p.pv() == ',' and p.peek(1)[0] == 'int':
            p.next(); idx.append(int(p.next()[1]))
        p.skip_meta_tail()
        return Instr(op, res, a.ty, [a, b], {'idx': idx}, line)
    if op in ('call', 'invoke'):
        return parse_call_like(p, mod, op, res, line)
    if op == 'landingpad':
        t = p.type()
        cleanup = False; clauses = []
        while not p.done():
            w = p.next()[1]
            if w == 'cleanup': cleanup = True
            elif w == 'catch': clauses.append(('catch', p.tval()))
            elif w == 'filter': clauses.append(('filter', p.tval()))
            else: raise IRError('landingpad clause %r: %s' % (w, line))
        return Instr(op, res, t, [], {'cleanup': cleanup, 'clauses': clauses}, line)
    if op == 'freeze':
        a = p.tval(); p.skip_meta_tail()
        return Instr('freeze', res, a.ty, [a], None, line)
    if op == 'atomicrmw':
        p.eat('volatile')
        aop = p.next()[1]
        ptr = p.tval(); p.expect(','); val = p.tval()
        while not p.done(): p.next()
        return Instr('atomicrmw', res, val.ty, [ptr, val], {'aop': aop}, line)
    if op == 'fence':
        return Instr('fence', line=line)
    if op == 'cmpxchg':
        p.eat('weak'); p.eat('volatile')
        ptr = p.tval(); p.expect(','); cmpv = p.tval(); p.expect(','); newv = p.tval()
        while not p.done(): p.next()
        return Instr('cmpxchg', res, Ty('struct', [cmpv.ty, INT(1)], False), [ptr, cmpv, newv], None, line)
    if op in ('va_arg', 'indirectbr', 'extractelement', 'insertelement',
              'shufflevector', 'callbr', 'catchswitch', 'catchpad', 'cleanuppad'):
        return Instr('unsupported', res, None, [], {'why': op}, line)      # an error only if the function is actually emitted
    raise IRError('unknown instruction %r: %s' % (op, line))


def parse_module(text):
    mod = Module()
    lines = text.split('\n')
    i, n = 0, len(lines)
    cur = None; blk = None
    while i < n:
        ln = lines[i]; i += 1
        s = ln.strip()
        if not s or s.startswith(';'):
            continue
        if cur is not None:
            if s == '}':
                cur = None; blk = None
                continue
            m = re.match(r'^([-a-zA-Z$._0-9]+|"(?:[^"\\]|\\.)*"):', ln)
            if m:
                nm = m.group(1)
                if nm.startswith('"'): nm = unq('%' + nm)
                blk = Block(nm); cur.blocks.append(blk)
                continue
            # join continuation lines
            full = s
            if full.startswith('switch') and not full.rstrip().endswith(']') and not re.search(r'\]\s*,', full):
                while i < n:
                    nx = lines[i].strip(); i += 1
                    full += ' ' + nx
                    if nx.startswith(']'): break
            else:
                while i < n:
                    nx = lines[i].strip()
                    if re.match(r'^(to label|catch |cleanup|filter )', nx):
                        full += ' ' + nx; i += 1
                    else:
                        break
            toks = lex(full)
            if not toks: continue
            if blk is None:
                blk = Block(cur._entry_name)
                cur.blocks.append(blk)
            blk.instrs.append(parse_instr(toks, mod, full))
            continue
        # module level
        if s.startswith('source_filename') or s.startswith('target ') or s.startswith('module asm'):
            continue
        if s.startswith('!') or s.startswith('$'):
            continue
        if s.startswith('attributes'):
            m = re.match(r'attributes (#[0-9]+) = \{(.*)\}', s)
            words = set(re.findall(r'(?<!")\b([a-z_]+)\b(?!["=])', re.sub(r'"[^"]*"(="[^"]*")?', '', m.group(2))))
            mod.attr_groups[m.group(1)] = words
            continue
        toks = lex(s)
        p = P(toks, mod, s)
        if toks[0][1] in ('define', 'declare'):
            is_def = toks[0][1] == 'define'
            p.next()
            f = parse_func_header(p, mod, is_def)
            # number unnamed params
            k = 0
            ps = []
            for (t, pn) in f.params:
                if pn is None:
                    pn = str(k)
                if pn.isdigit():
                    k = int(pn) + 1
                ps.append((t, pn))
            f.params = ps
            if is_def:
                f.blocks = []
                cur = f; blk = None
                # entry block implicit name
                f._entry_name = str(k)
            if f.name in mod.funcs and mod.funcs[f.name].blocks is not None and not is_def:
                continue
            mod.funcs[f.name] = f
            continue
        if toks[0][0] in ('name', 'qname') and toks[0][1][0] == '%' and toks[1][1] == '=' and toks[2][1] == 'type':
            name = unq(toks[0][1])
            p.i = 3
            mod.types[name] = p.type()
            continue
        if toks[0][0] in ('name', 'qname') and toks[0][1][0] == '@' and toks[1][1] == '=':
            name = unq(toks[0][1])
            p.i = 2
            ext = False; const = False; tls = False
            while p.peek()[0] == 'word' and (p.pv() in LINKAGE or p.pv() in ('global', 'constant', 'alias', 'ifunc')):
                w = p.next()[1]
                if w in ('external', 'extern_weak'): ext = True
                if w == 'thread_local':
                    tls = True
                    if p.eat('('):
                        p.next(); p.expect(')')
                if w == 'alias':
                    t = p.type(); p.expect(',')
                    v = p.tval()
                    mod.aliases[name] = v
                    break
                if w in ('global', 'constant'):
                    const = (w == 'constant')
                    t = p.type()
                    init = None
                    if not p.done() and p.pv() != ',':
                        init = p.value(t)
                    g = Global(name, t, init, const, ext or init is None)
                    g.tls = tls
                    mod.globals[name] = g
                    break
            continue
        raise IRError('unparsed module line: ' + s)
    g = mod.globals.get('llvm.global_ctors')
    if g and g.init and g.init.k == 'array':
        ents = []
        for e in g.init.a:
            prio = e.a[0].a
            fn = e.a[1]
            if fn.k == 'global':
                ents.append((prio, fn.a))
        mod.ctors = [fn for (_, fn) in sorted(ents, key=lambda x: x[0])]
    return mod


if __name__ == '__main__':
    import sys
    m = parse_module(open(sys.argv[1]).read())
    print(len(m.types), 'types', len(m.globals), 'globals', len(m.funcs), 'funcs', m.ctors)
    for f in m.funcs.values():
        if f.blocks is not None:
            print(f.name, len(f.blocks), sum(len(b.instrs) for b in f.blocks))
