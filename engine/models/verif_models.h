/* Models of the binary-only externals (libstdc++.so / libc / C++ ABI).  Each model is compiled only when
 * the generated module references the symbol (USES_<name>), takes pointers as void* and is called through
 * a typed shim that ir2c.py generates.  Every model is part of the trusted base (DESIGN.md section 3). */

/* ---------------------------------------------------------------- C++ ABI */
#ifdef USES___cxa_allocate_exception
static void *M___cxa_allocate_exception(u64 n) { return verif_exc_alloc(n); }
#endif
#ifdef USES___cxa_free_exception
static void M___cxa_free_exception(void *p) { verif_exc_free(p); }
#endif
#ifdef USES___cxa_begin_catch
static void *M___cxa_begin_catch(void *p) { return verif_begin_catch(p); }
#endif
#ifdef USES___cxa_end_catch
static void M___cxa_end_catch(void) { verif_end_catch(); }
#endif
#ifdef USES___cxa_rethrow
static void M___cxa_rethrow(void) { verif_rethrow(); }
#endif
#ifdef USES___cxa_guard_acquire
static s32 M___cxa_guard_acquire(void *g) { return *(u8 *)g == 0; }
#endif
#ifdef USES___cxa_guard_release
static void M___cxa_guard_release(void *g) { *(u8 *)g = 1; }
#endif
#ifdef USES___cxa_guard_abort
static void M___cxa_guard_abort(void *g) { (void)g; }
#endif
#ifdef USES___cxa_pure_virtual
static void M___cxa_pure_virtual(void) { VERIF_TERMINATE("pure virtual call"); }
#endif
#ifdef USES__ZSt9terminatev
static void M__ZSt9terminatev(void) { VERIF_TERMINATE("std::terminate called"); }
#endif
#ifdef USES___clang_call_terminate
static void M___clang_call_terminate(void *p) { (void)p; VERIF_TERMINATE("exception escaped a noexcept function (destructor)"); }
#endif
#ifdef USES_abort
static void M_abort(void) { VERIF_TERMINATE("abort called"); }
#endif
#ifdef USES___assert_fail
static void M___assert_fail(void *a, void *b, u32 c, void *d) { (void)a; (void)b; (void)c; (void)d; VERIF_TERMINATE("assert() failed"); }
#endif

/* ---------------------------------------------------------------- operator new / delete */
static inline void *verif_opnew(u64 n) {
  u64 k = verif_alloc_count++;
  VERIF_BOUND(n <= verif_alloc_limit, "allocation request out of proportion to the input");
  if ((s64)k == verif_alloc_fail_at) {
    void *e = verif_exc_alloc(8);
    verif_throw(e, VERIF_TID_BAD_ALLOC, 0);
    return 0;
  }
  return verif_malloc(n);
}
#ifdef USES__Znwm
static void *M__Znwm(u64 n) { return verif_opnew(n); }
#endif
#ifdef USES__Znam
static void *M__Znam(u64 n) { return verif_opnew(n); }
#endif
#ifdef USES__ZdlPv
static void M__ZdlPv(void *p) { free(p); }
#endif
#ifdef USES__ZdaPv
static void M__ZdaPv(void *p) { free(p); }
#endif
#ifdef USES__ZdlPvm
static void M__ZdlPvm(void *p, u64 n) { (void)n; free(p); }
#endif

/* ---------------------------------------------------------------- std exceptions (messages kept as pointer) */
struct verif_stdexc { void *vptr; const void *msg; };
static inline void verif_stdexc_init(void *self, const void *msg) { ((struct verif_stdexc *)self)->vptr = 0; ((struct verif_stdexc *)self)->msg = msg; }
#define VERIF_EXC_CTOR(name) static void M_##name(void *self, void *msg) { verif_stdexc_init(self, msg); }
#define VERIF_EXC_CTOR_STR(name) static void M_##name(void *self, void *str) { verif_stdexc_init(self, *(void **)str); }
#define VERIF_EXC_DTOR(name) static void M_##name(void *self) { (void)self; }
#ifdef USES__ZNSt12out_of_rangeC1EPKc
VERIF_EXC_CTOR(_ZNSt12out_of_rangeC1EPKc)
#endif
#ifdef USES__ZNSt12out_of_rangeD1Ev
VERIF_EXC_DTOR(_ZNSt12out_of_rangeD1Ev)
#endif
#ifdef USES__ZNSt16invalid_argumentC1EPKc
VERIF_EXC_CTOR(_ZNSt16invalid_argumentC1EPKc)
#endif
#ifdef USES__ZNSt16invalid_argumentD1Ev
VERIF_EXC_DTOR(_ZNSt16invalid_argumentD1Ev)
#endif
#ifdef USES__ZNSt13runtime_errorC1EPKc
VERIF_EXC_CTOR(_ZNSt13runtime_errorC1EPKc)
#endif
#ifdef USES__ZNSt13runtime_errorC2EPKc
VERIF_EXC_CTOR(_ZNSt13runtime_errorC2EPKc)
#endif
#ifdef USES__ZNSt13runtime_errorC1ERKNSt7__cxx1112basic_stringIcSt11char_traitsIcESaIcEEE
static void M__ZNSt13runtime_errorC1ERKNSt7__cxx1112basic_stringIcSt11char_traitsIcESaIcEEE(void *self, void *str) { (void)str; verif_stdexc_init(self, "runtime_error"); }
#endif
#ifdef USES__ZNSt13runtime_errorC2ERKNSt7__cxx1112basic_stringIcSt11char_traitsIcESaIcEEE
static void M__ZNSt13runtime_errorC2ERKNSt7__cxx1112basic_stringIcSt11char_traitsIcESaIcEEE(void *self, void *str) { (void)str; verif_stdexc_init(self, "runtime_error"); }
#endif
#ifdef USES__ZNSt13runtime_errorD1Ev
VERIF_EXC_DTOR(_ZNSt13runtime_errorD1Ev)
#endif
#ifdef USES__ZNSt13runtime_errorD2Ev
VERIF_EXC_DTOR(_ZNSt13runtime_errorD2Ev)
#endif
#ifdef USES__ZNKSt13runtime_error4whatEv
static void *M__ZNKSt13runtime_error4whatEv(void *self) { return (void *)((struct verif_stdexc *)self)->msg; }
#endif
#ifdef USES__ZNSt12length_errorC1EPKc
VERIF_EXC_CTOR(_ZNSt12length_errorC1EPKc)
#endif
#ifdef USES__ZNSt12length_errorD1Ev
VERIF_EXC_DTOR(_ZNSt12length_errorD1Ev)
#endif
#ifdef USES__ZNSt9exceptionD2Ev
VERIF_EXC_DTOR(_ZNSt9exceptionD2Ev)
#endif
#ifdef USES__ZNSt9exceptionD1Ev
VERIF_EXC_DTOR(_ZNSt9exceptionD1Ev)
#endif
/* std::__throw_* helpers */
static inline void verif_throw_std(s32 tid) { void *e = verif_exc_alloc(16); verif_stdexc_init(e, "std"); verif_throw(e, tid, 0); }
#ifdef USES__ZSt20__throw_length_errorPKc
static void M__ZSt20__throw_length_errorPKc(void *m) { (void)m; verif_throw_std(VERIF_TID_LENGTH_ERROR); }
#endif
#ifdef USES__ZSt19__throw_logic_errorPKc
static void M__ZSt19__throw_logic_errorPKc(void *m) { (void)m; verif_throw_std(VERIF_TID_LOGIC_ERROR); }
#endif
#ifdef USES__ZSt17__throw_bad_allocv
static void M__ZSt17__throw_bad_allocv(void) { verif_throw_std(VERIF_TID_BAD_ALLOC); }
#endif
#ifdef USES__ZSt28__throw_bad_array_new_lengthv
static void M__ZSt28__throw_bad_array_new_lengthv(void) { verif_throw_std(VERIF_TID_BAD_ALLOC); }
#endif
#ifdef USES__ZSt20__throw_out_of_rangePKc
static void M__ZSt20__throw_out_of_rangePKc(void *m) { (void)m; verif_throw_std(VERIF_TID_OUT_OF_RANGE); }
#endif
#ifdef USES_VA4__ZSt24__throw_out_of_range_fmtPKcz
static void VA4__ZSt24__throw_out_of_range_fmtPKcz(u8 *f, u64 a, u64 b, u64 c) { (void)f; (void)a; (void)b; (void)c; verif_throw_std(VERIF_TID_OUT_OF_RANGE); }
#endif
#ifdef USES_VA3__ZSt24__throw_out_of_range_fmtPKcz
static void VA3__ZSt24__throw_out_of_range_fmtPKcz(u8 *f, u64 a, u64 b) { (void)f; (void)a; (void)b; verif_throw_std(VERIF_TID_OUT_OF_RANGE); }
#endif

/* ---------------------------------------------------------------- harness support */
#ifdef USES_verif_symbolic_phase
static void M_verif_symbolic_phase(void) { verif_symbolic = 1; }
#endif

/* ---------------------------------------------------------------- libc */
#ifdef USES_memcmp
static s32 M_memcmp(void *a, void *b, u64 n) {
  const u8 *x = (const u8 *)a, *y = (const u8 *)b;
  for (u64 i = 0; i < n; i++) { if (x[i] != y[i]) return x[i] < y[i] ? -1 : 1; }
  return 0;
}
#endif
#ifdef USES_bcmp
static s32 M_bcmp(void *a, void *b, u64 n) {
  const u8 *x = (const u8 *)a, *y = (const u8 *)b;
  for (u64 i = 0; i < n; i++) { if (x[i] != y[i]) return 1; }
  return 0;
}
#endif
#ifdef USES_strlen
static u64 M_strlen(void *a) { const u8 *x = (const u8 *)a; u64 n = 0; while (x[n]) n++; return n; }
#endif
#ifdef USES_memchr
static void *M_memchr(void *a, s32 c, u64 n) { u8 *x = (u8 *)a; for (u64 i = 0; i < n; i++) if (x[i] == (u8)c) return x + i; return 0; }
#endif
/* ctype in the "C" locale.  Arguments outside [-1,255] are undefined behaviour by the C standard; glibc tolerates
 * [-128,255] through its table layout, so this is reported as a separate UB class, see DESIGN.md section 3. */
#ifdef USES_isdigit
static s32 M_isdigit(s32 c) { return c >= '0' && c <= '9'; }
#endif
#ifdef USES_isspace
static s32 M_isspace(s32 c) { return c == ' ' || (c >= 9 && c <= 13); }
#endif
#ifdef USES_tolower
static s32 M_tolower(s32 c) { return (c >= 'A' && c <= 'Z') ? c + 32 : c; }
#endif
#ifdef USES_toupper
static s32 M_toupper(s32 c) { return (c >= 'a' && c <= 'z') ? c - 32 : c; }
#endif
