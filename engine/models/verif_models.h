/* Models of the binary-only externals (libstdc++.so / libc / C++ ABI).  Each model is compiled only when
 * the generated module references the symbol (USES_<name>), takes pointers as void* and is called through
 * a typed shim that ir2c.py generates.  Every model is part of the trusted base (DESIGN.md section 3). */

/* ---------------------------------------------------------------- C++ ABI */
#ifdef USES___cxa_allocate_exception
static void *M___cxa_allocate_exception(u64 n) { return verif_exc_alloc(n); }
#endif
#ifdef USES___cxa_free_exception
static void M___cxa_free_exception(void *p) { verif_exc_free(p); }
#endif
#ifdef USES___cxa_begin_catch
static void *M___cxa_begin_catch(void *p) { return verif_begin_catch(p); }
#endif
#ifdef USES___cxa_end_catch
static void M___cxa_end_catch(void) { verif_end_catch(); }
#endif
#ifdef USES___cxa_rethrow
static void M___cxa_rethrow(void) { verif_rethrow(); }
#endif
#ifdef USES___cxa_guard_acquire
static s32 M___cxa_guard_acquire(void *g) { if (*(u8 *)g == 0) { verif_guard_depth++; return 1; } return 0; }
#endif
#ifdef USES___cxa_guard_release
static void M___cxa_guard_release(void *g) { *(u8 *)g = 1; if (verif_guard_depth > 0) verif_guard_depth--; }
#endif
#ifdef USES___cxa_guard_abort
static void M___cxa_guard_abort(void *g) { (void)g; }
#endif
#ifdef USES___cxa_pure_virtual
static void M___cxa_pure_virtual(void) { VERIF_TERMINATE("pure virtual call"); }
#endif
#ifdef USES__ZSt9terminatev
static void M__ZSt9terminatev(void) { VERIF_TERMINATE("std::terminate called"); }
#endif
#ifdef USES___clang_call_terminate
static void M___clang_call_terminate(void *p) { (void)p; VERIF_TERMINATE("exception escaped a noexcept function (destructor)"); }
#endif
#ifdef USES_abort
static void M_abort(void) { VERIF_TERMINATE("abort called"); }
#endif
#ifdef USES___assert_fail
static void M___assert_fail(void *a, void *b, u32 c, void *d) { (void)a; (void)b; (void)c; (void)d; VERIF_TERMINATE("assert() failed"); }
#endif

/* ---------------------------------------------------------------- operator new / delete */
static inline void *verif_opnew(u64 n) {
  u64 k = verif_alloc_count++;
  VERIF_BOUND(n <= verif_alloc_limit, "allocation request out of proportion to the input");
  if ((s64)k == verif_alloc_fail_at) {
    void *e = verif_exc_alloc(8);
    verif_throw(e, VERIF_TID_BAD_ALLOC, 0);
    return 0;
  }
  return verif_malloc(n);
}
#ifdef USES__Znwm
static void *M__Znwm(u64 n) { return verif_opnew(n); }
#endif
#ifdef USES__Znam
static void *M__Znam(u64 n) { return verif_opnew(n); }
#endif
#ifdef USES__ZdlPv
static void M__ZdlPv(void *p) { free(p); }
#endif
#ifdef USES__ZdaPv
static void M__ZdaPv(void *p) { free(p); }
#endif
#ifdef USES__ZdlPvm
static void M__ZdlPvm(void *p, u64 n) { (void)n; free(p); }
#endif

/* ---------------------------------------------------------------- std exceptions (messages kept as pointer) */
struct verif_stdexc { void *vptr; const void *msg; };
static inline void verif_stdexc_init(void *self, const void *msg) { ((struct verif_stdexc *)self)->vptr = 0; ((struct verif_stdexc *)self)->msg = msg; }
#define VERIF_EXC_CTOR(name) static void M_##name(void *self, void *msg) { verif_stdexc_init(self, msg); }
#define VERIF_EXC_CTOR_STR(name) static void M_##name(void *self, void *str) { verif_stdexc_init(self, *(void **)str); }
#define VERIF_EXC_DTOR(name) static void M_##name(void *self) { (void)self; }
#ifdef USES__ZNSt12out_of_rangeC1EPKc
VERIF_EXC_CTOR(_ZNSt12out_of_rangeC1EPKc)
#endif
#ifdef USES__ZNSt12out_of_rangeD1Ev
VERIF_EXC_DTOR(_ZNSt12out_of_rangeD1Ev)
#endif
#ifdef USES__ZNSt16invalid_argumentC1EPKc
VERIF_EXC_CTOR(_ZNSt16invalid_argumentC1EPKc)
#endif
#ifdef USES__ZNSt16invalid_argumentD1Ev
VERIF_EXC_DTOR(_ZNSt16invalid_argumentD1Ev)
#endif
#ifdef USES__ZNSt13runtime_errorC1EPKc
VERIF_EXC_CTOR(_ZNSt13runtime_errorC1EPKc)
#endif
#ifdef USES__ZNSt13runtime_errorC2EPKc
VERIF_EXC_CTOR(_ZNSt13runtime_errorC2EPKc)
#endif
#ifdef USES__ZNSt13runtime_errorC1ERKNSt7__cxx1112basic_stringIcSt11char_traitsIcESaIcEEE
static void M__ZNSt13runtime_errorC1ERKNSt7__cxx1112basic_stringIcSt11char_traitsIcESaIcEEE(void *self, void *str) { (void)str; verif_stdexc_init(self, "runtime_error"); }
#endif
#ifdef USES__ZNSt13runtime_errorC2ERKNSt7__cxx1112basic_stringIcSt11char_traitsIcESaIcEEE
static void M__ZNSt13runtime_errorC2ERKNSt7__cxx1112basic_stringIcSt11char_traitsIcESaIcEEE(void *self, void *str) { (void)str; verif_stdexc_init(self, "runtime_error"); }
#endif
#ifdef USES__ZNSt13runtime_errorD1Ev
VERIF_EXC_DTOR(_ZNSt13runtime_errorD1Ev)
#endif
#ifdef USES__ZNSt13runtime_errorD2Ev
VERIF_EXC_DTOR(_ZNSt13runtime_errorD2Ev)
#endif
#ifdef USES__ZNKSt13runtime_error4whatEv
static void *M__ZNKSt13runtime_error4whatEv(void *self) { return (void *)((struct verif_stdexc *)self)->msg; }
#endif
#ifdef USES__ZNSt12length_errorC1EPKc
VERIF_EXC_CTOR(_ZNSt12length_errorC1EPKc)
#endif
#ifdef USES__ZNSt12length_errorD1Ev
VERIF_EXC_DTOR(_ZNSt12length_errorD1Ev)
#endif
#ifdef USES__ZNSt9exceptionD2Ev
VERIF_EXC_DTOR(_ZNSt9exceptionD2Ev)
#endif
#ifdef USES__ZNSt9exceptionD1Ev
VERIF_EXC_DTOR(_ZNSt9exceptionD1Ev)
#endif
/* std::__throw_* helpers */
static inline void verif_throw_std(s32 tid) { void *e = verif_exc_alloc(16); verif_stdexc_init(e, "std"); verif_throw(e, tid, 0); }
#ifdef USES__ZSt20__throw_length_errorPKc
static void M__ZSt20__throw_length_errorPKc(void *m) { (void)m; verif_throw_std(VERIF_TID_LENGTH_ERROR); }
#endif
#ifdef USES__ZSt19__throw_logic_errorPKc
static void M__ZSt19__throw_logic_errorPKc(void *m) { (void)m; verif_throw_std(VERIF_TID_LOGIC_ERROR); }
#endif
#ifdef USES__ZSt17__throw_bad_allocv
static void M__ZSt17__throw_bad_allocv(void) { verif_throw_std(VERIF_TID_BAD_ALLOC); }
#endif
#ifdef USES__ZSt28__throw_bad_array_new_lengthv
static void M__ZSt28__throw_bad_array_new_lengthv(void) { verif_throw_std(VERIF_TID_BAD_ALLOC); }
#endif
#ifdef USES__ZSt20__throw_out_of_rangePKc
static void M__ZSt20__throw_out_of_rangePKc(void *m) { (void)m; verif_throw_std(VERIF_TID_OUT_OF_RANGE); }
#endif
#ifdef USES_VA4__ZSt24__throw_out_of_range_fmtPKcz
void VA4__ZSt24__throw_out_of_range_fmtPKcz(u8 *f, u64 a, u64 b, u64 c) { (void)f; (void)a; (void)b; (void)c; verif_throw_std(VERIF_TID_OUT_OF_RANGE); }
#endif
#ifdef USES_VA3__ZSt24__throw_out_of_range_fmtPKcz
void VA3__ZSt24__throw_out_of_range_fmtPKcz(u8 *f, u64 a, u64 b) { (void)f; (void)a; (void)b; verif_throw_std(VERIF_TID_OUT_OF_RANGE); }
#endif

/* ---------------------------------------------------------------- harness support */
#ifdef USES_verif_symbolic_phase
static void M_verif_symbolic_phase(void) { verif_symbolic = 1; }
#endif
#ifdef USES_verif_nogrow
static void M_verif_nogrow(void *p) { VERIF_MODEL(verif_nogrow_n < 8, "too many verif_nogrow registrations"); verif_nogrow_tab[verif_nogrow_n++] = p; }
#endif

/* ---------------------------------------------------------------- libc */
#ifdef USES_memcmp
static s32 M_memcmp(void *a, void *b, u64 n) {
  const u8 *x = (const u8 *)a, *y = (const u8 *)b;
  for (u64 i = 0; i < n; i++) { if (x[i] != y[i]) return x[i] < y[i] ? -1 : 1; }
  return 0;
}
#endif
#ifdef USES_bcmp
static s32 M_bcmp(void *a, void *b, u64 n) {
  const u8 *x = (const u8 *)a, *y = (const u8 *)b;
  for (u64 i = 0; i < n; i++) { if (x[i] != y[i]) return 1; }
  return 0;
}
#endif
#ifdef USES_strlen
#ifdef VERIF_STRLEN_ZERO
/* harness option (//@ MODELDEF VERIF_STRLEN_ZERO): in the units linked by that harness strlen() is reached only from the construction of
 * std::string temporaries holding exception MESSAGES (checked by reading the IR callers); the texts are never observed, and
 * building ~200 of them symbolically dominates the run.  Every such message becomes the empty string. */
static u64 M_strlen(void *a) { (void)a; return 0; }
#else
static u64 M_strlen(void *a) { const u8 *x = (const u8 *)a; u64 n = 0; while (x[n]) n++; return n; }
#endif
#endif
#ifdef USES_memchr
static void *M_memchr(void *a, s32 c, u64 n) { u8 *x = (u8 *)a; for (u64 i = 0; i < n; i++) if (x[i] == (u8)c) return x + i; return 0; }
#endif
/* ctype in the "C" locale.  Arguments outside [-1,255] are undefined behaviour by the C standard; glibc tolerates
 * [-128,255] through its table layout, so this is reported as a separate UB class, see DESIGN.md section 3. */
#ifdef USES_isdigit
static s32 M_isdigit(s32 c) { return c >= '0' && c <= '9'; }
#endif
#ifdef USES_isspace
static s32 M_isspace(s32 c) { return c == ' ' || (c >= 9 && c <= 13); }
#endif
#ifdef USES_tolower
static s32 M_tolower(s32 c) { return (c >= 'A' && c <= 'Z') ? c + 32 : c; }
#endif
#ifdef USES_toupper
static s32 M_toupper(s32 c) { return (c >= 'a' && c <= 'z') ? c - 32 : c; }
#endif

/* ---------------------------------------------------------------- std::basic_string out-of-line members
 * Real libstdc++ (new ABI) layout: { CharT* p; size_t size; union { CharT local[16/sizeof(CharT)]; size_t cap; } }.
 * Semantics transcribed from bits/basic_string.tcc.  In the symbolic phase any growth is a checked capacity bound. */
struct verif_string { u8 *p; u64 size; union { u8 local[16]; u64 cap; } u; };
static inline u1 verif_str_is_local(struct verif_string *S) { return S->p == S->u.local; }
static inline u64 verif_str_capacity(struct verif_string *S, u64 cs) { return verif_str_is_local(S) ? (16 / cs - 1) : S->u.cap; }
static inline void verif_str_set_length(struct verif_string *S, u64 n, u64 cs) {
  S->size = n;
  for (u64 k = 0; k < cs; k++) S->p[n * cs + k] = 0;
}
static inline u8 *verif_str_create(u64 *capacity, u64 old_capacity, u64 cs) {
  u64 maxsz = ((u64)0x7fffffffffffffffULL) / cs;
  if (*capacity > maxsz) { verif_throw_std(VERIF_TID_LENGTH_ERROR); return 0; }
  if (*capacity > old_capacity && *capacity < 2 * old_capacity) { *capacity = 2 * old_capacity; if (*capacity > maxsz) *capacity = maxsz; }
  return (u8 *)verif_opnew((*capacity + 1) * cs);
}
static inline void verif_str_dispose(struct verif_string *S) { if (!verif_str_is_local(S)) free(S->p); }
static inline void verif_str_mutate(struct verif_string *S, u64 pos, u64 len1, const u8 *s, u64 len2, u64 cs) {
  VERIF_BOUND(!(verif_symbolic && verif_is_nogrow(S)), "growth of a pre-sized string in the symbolic phase (capacity bound exceeded)");
  u64 how_much = S->size - pos - len1;
  u64 new_cap = S->size + len2 - len1;
  u8 *r = verif_str_create(&new_cap, verif_str_capacity(S, cs), cs);
  if (VERIF_EXC) return;
  if (pos) verif_memcpy(r, S->p, pos * cs);
  if (s && len2) verif_memcpy(r + pos * cs, s, len2 * cs);
  if (how_much) verif_memcpy(r + (pos + len2) * cs, S->p + (pos + len1) * cs, how_much * cs);
  verif_str_dispose(S);
  S->p = r; S->u.cap = new_cap;
}
static inline void *verif_str_append(struct verif_string *S, const u8 *s, u64 n, u64 cs) {
  u64 len = S->size + n;
  if (len <= verif_str_capacity(S, cs)) { if (n) verif_memcpy(S->p + S->size * cs, s, n * cs); }
  else { verif_str_mutate(S, S->size, 0, s, n, cs); if (VERIF_EXC) return S; }
  verif_str_set_length(S, len, cs);
  return S;
}
static inline void *verif_str_replace(struct verif_string *S, u64 pos, u64 len1, const u8 *s, u64 len2, u64 cs) {
  u64 old = S->size;
  u64 maxsz = ((u64)0x7fffffffffffffffULL) / cs;
  if (len2 > maxsz - (old - len1)) { verif_throw_std(VERIF_TID_LENGTH_ERROR); return S; }
  u64 nsz = old + len2 - len1;
  if (nsz <= verif_str_capacity(S, cs)) {
    u8 *p = S->p + pos * cs;
    u64 how_much = old - pos - len1;
    VERIF_MODEL(!((uintptr_t)s >= (uintptr_t)S->p && (uintptr_t)s <= (uintptr_t)(S->p + old * cs)) || len2 == 0, "basic_string::_M_replace with overlapping source not modelled");
    if (how_much && len1 != len2) verif_memmove(p + len2 * cs, p + len1 * cs, how_much * cs);
    if (len2) verif_memcpy(p, s, len2 * cs);
  } else { verif_str_mutate(S, pos, len1, s, len2, cs); if (VERIF_EXC) return S; }
  verif_str_set_length(S, nsz, cs);
  return S;
}
static inline void *verif_str_replace_aux(struct verif_string *S, u64 pos, u64 n1, u64 n2, u32 c, u64 cs) {
  u64 old = S->size;
  u64 nsz = old + n2 - n1;
  if (nsz <= verif_str_capacity(S, cs)) {
    u8 *p = S->p + pos * cs;
    u64 how_much = old - pos - n1;
    if (how_much && n1 != n2) verif_memmove(p + n2 * cs, p + n1 * cs, how_much * cs);
  } else { verif_str_mutate(S, pos, n1, 0, n2, cs); if (VERIF_EXC) return S; }
  for (u64 i = 0; i < n2; i++) for (u64 k = 0; k < cs; k++) S->p[(pos + i) * cs + k] = (u8)(c >> (8 * k));
  verif_str_set_length(S, nsz, cs);
  return S;
}
static inline void verif_str_erase(struct verif_string *S, u64 pos, u64 n, u64 cs) {
  u64 how_much = S->size - pos - n;
  if (how_much && n) verif_memmove(S->p + pos * cs, S->p + (pos + n) * cs, how_much * cs);
  verif_str_set_length(S, S->size - n, cs);
}
static inline void verif_str_reserve(struct verif_string *S, u64 n, u64 cs) {
  u64 cap = verif_str_capacity(S, cs);
  if (n <= cap) return;
  VERIF_BOUND(!(verif_symbolic && verif_is_nogrow(S)), "reserve growth of a pre-sized string in the symbolic phase");
  u8 *t = verif_str_create(&n, cap, cs);
  if (VERIF_EXC) return;
  verif_memcpy(t, S->p, (S->size + 1) * cs);
  verif_str_dispose(S);
  S->p = t; S->u.cap = n;
}
static inline void verif_str_assign(struct verif_string *S, struct verif_string *O, u64 cs) {
  if (S == O) return;
  u64 rs = O->size, cap = verif_str_capacity(S, cs);
  if (rs > cap) {
    VERIF_BOUND(!(verif_symbolic && verif_is_nogrow(S)), "assign growth of a pre-sized string in the symbolic phase");
    u64 nc = rs; u8 *t = verif_str_create(&nc, cap, cs);
    if (VERIF_EXC) return;
    verif_str_dispose(S); S->p = t; S->u.cap = nc;
  }
  if (rs) verif_memcpy(S->p, O->p, rs * cs);
  verif_str_set_length(S, rs, cs);
}
static inline void verif_str_construct_fill(struct verif_string *S, u64 n, u32 c, u64 cs) {
  if (n > 16 / cs - 1) { u64 nc = n; S->p = verif_str_create(&nc, 0, cs); if (VERIF_EXC) return; S->u.cap = nc; }
  for (u64 i = 0; i < n; i++) for (u64 k = 0; k < cs; k++) S->p[i * cs + k] = (u8)(c >> (8 * k));
  verif_str_set_length(S, n, cs);
}
#define VSTR(x) ((struct verif_string *)(x))
/* char */
#ifdef USES__ZNSt7__cxx1112basic_stringIcSt11char_traitsIcESaIcEE9_M_appendEPKcm
static void *M__ZNSt7__cxx1112basic_stringIcSt11char_traitsIcESaIcEE9_M_appendEPKcm(void *S, void *s, u64 n) { return verif_str_append(VSTR(S), (const u8 *)s, n, 1); }
#endif
#ifdef USES__ZNSt7__cxx1112basic_stringIcSt11char_traitsIcESaIcEE9_M_mutateEmmPKcm
static void M__ZNSt7__cxx1112basic_stringIcSt11char_traitsIcESaIcEE9_M_mutateEmmPKcm(void *S, u64 pos, u64 l1, void *s, u64 l2) { verif_str_mutate(VSTR(S), pos, l1, (const u8 *)s, l2, 1); }
#endif
#ifdef USES__ZNSt7__cxx1112basic_stringIcSt11char_traitsIcESaIcEE10_M_replaceEmmPKcm
static void *M__ZNSt7__cxx1112basic_stringIcSt11char_traitsIcESaIcEE10_M_replaceEmmPKcm(void *S, u64 pos, u64 l1, void *s, u64 l2) { return verif_str_replace(VSTR(S), pos, l1, (const u8 *)s, l2, 1); }
#endif
#ifdef USES__ZNSt7__cxx1112basic_stringIcSt11char_traitsIcESaIcEE14_M_replace_auxEmmmc
static void *M__ZNSt7__cxx1112basic_stringIcSt11char_traitsIcESaIcEE14_M_replace_auxEmmmc(void *S, u64 pos, u64 n1, u64 n2, u8 c) { return verif_str_replace_aux(VSTR(S), pos, n1, n2, c, 1); }
#endif
#ifdef USES__ZNSt7__cxx1112basic_stringIcSt11char_traitsIcESaIcEE8_M_eraseEmm
static void M__ZNSt7__cxx1112basic_stringIcSt11char_traitsIcESaIcEE8_M_eraseEmm(void *S, u64 pos, u64 n) { verif_str_erase(VSTR(S), pos, n, 1); }
#endif
#ifdef USES__ZNSt7__cxx1112basic_stringIcSt11char_traitsIcESaIcEE7reserveEm
static void M__ZNSt7__cxx1112basic_stringIcSt11char_traitsIcESaIcEE7reserveEm(void *S, u64 n) { verif_str_reserve(VSTR(S), n, 1); }
#endif
#ifdef USES__ZNSt7__cxx1112basic_stringIcSt11char_traitsIcESaIcEE9_M_assignERKS4_
static void M__ZNSt7__cxx1112basic_stringIcSt11char_traitsIcESaIcEE9_M_assignERKS4_(void *S, void *O) { verif_str_assign(VSTR(S), VSTR(O), 1); }
#endif
#ifdef USES__ZNSt7__cxx1112basic_stringIcSt11char_traitsIcESaIcEE9_M_createERmm
static void *M__ZNSt7__cxx1112basic_stringIcSt11char_traitsIcESaIcEE9_M_createERmm(void *S, void *cap, u64 old) { (void)S; return verif_str_create((u64 *)cap, old, 1); }
#endif
#ifdef USES__ZNSt7__cxx1112basic_stringIcSt11char_traitsIcESaIcEE12_M_constructEmc
static void M__ZNSt7__cxx1112basic_stringIcSt11char_traitsIcESaIcEE12_M_constructEmc(void *S, u64 n, u8 c) { verif_str_construct_fill(VSTR(S), n, c, 1); }
#endif
#ifdef USES__ZNSt7__cxx1112basic_stringIcSt11char_traitsIcESaIcEE6resizeEmc
static void M__ZNSt7__cxx1112basic_stringIcSt11char_traitsIcESaIcEE6resizeEmc(void *S, u64 n, u8 c) {
  if (VSTR(S)->size < n) verif_str_replace_aux(VSTR(S), VSTR(S)->size, 0, n - VSTR(S)->size, c, 1);
  else if (n < VSTR(S)->size) verif_str_set_length(VSTR(S), n, 1);
}
#endif
/* char16_t / char32_t / wchar_t: header-instantiated in the IR; only the growth entry point is replaced (storage discipline) */
#ifdef USES__ZNSt7__cxx1112basic_stringIDsSt11char_traitsIDsESaIDsEE9_M_mutateEmmPKDsm
static void M__ZNSt7__cxx1112basic_stringIDsSt11char_traitsIDsESaIDsEE9_M_mutateEmmPKDsm(void *S, u64 pos, u64 l1, void *s, u64 l2) { verif_str_mutate(VSTR(S), pos, l1, (const u8 *)s, l2, 2); }
#endif
#ifdef USES__ZNSt7__cxx1112basic_stringIDiSt11char_traitsIDiESaIDiEE9_M_mutateEmmPKDim
static void M__ZNSt7__cxx1112basic_stringIDiSt11char_traitsIDiESaIDiEE9_M_mutateEmmPKDim(void *S, u64 pos, u64 l1, void *s, u64 l2) { verif_str_mutate(VSTR(S), pos, l1, (const u8 *)s, l2, 4); }
#endif
#ifdef USES__ZNSt7__cxx1112basic_stringIwSt11char_traitsIwESaIwEE9_M_mutateEmmPKwm
static void M__ZNSt7__cxx1112basic_stringIwSt11char_traitsIwESaIwEE9_M_mutateEmmPKwm(void *S, u64 pos, u64 l1, void *s, u64 l2) { verif_str_mutate(VSTR(S), pos, l1, (const u8 *)s, l2, 4); }
#endif

/* ---------------------------------------------------------------- iostream (libstdc++ x86-64 layout, measured)
 * ios_base: state word at +32, exception mask at +28; basic_ios<char>: streambuf* at +232;
 * basic_streambuf<char>: in_beg +8, in_cur +16, in_end +24, out_beg +32, out_cur +40, out_end +48; istream: gcount at +8.
 * The istream/ostream pointer given to these functions is the stream subobject; its vptr[-3] holds the offset of the
 * virtual base basic_ios (taken from the vtable clang generated for the harness stream class). */
#define VIOS_GOOD 0
#define VIOS_BAD 1
#define VIOS_EOF 2
#define VIOS_FAIL 4
static inline u8 *verif_ios_of(void *stream) {
  u8 *self = (u8 *)stream;
  u8 **vptr = *(u8 ***)self;
  s64 off = (s64)(uintptr_t)vptr[-3];
  return self + off;
}
static inline u32 *verif_ios_state(u8 *ios) { return (u32 *)(ios + 32); }
static inline u8 *verif_ios_sb(u8 *ios) { return *(u8 **)(ios + 232); }
static inline void verif_ios_setstate(u8 *ios, u32 st) {
  *verif_ios_state(ios) |= st;
  VERIF_MODEL((*(u32 *)(ios + 28) & *verif_ios_state(ios)) == 0, "stream exception mask set: ios_base::failure not modelled");
}
struct verif_sb { void *vptr; u8 *in_beg, *in_cur, *in_end, *out_beg, *out_cur, *out_end; };
#ifdef USES__ZNSt8ios_baseC2Ev
static void M__ZNSt8ios_baseC2Ev(void *self) { u8 *p = (u8 *)self; memset(p + 8, 0, 208); }
#endif
#ifdef USES__ZNSt8ios_baseD2Ev
static void M__ZNSt8ios_baseD2Ev(void *self) { (void)self; }
#endif
#ifdef USES__ZNSt9basic_iosIcSt11char_traitsIcEE4initEPSt15basic_streambufIcS1_E
static void M__ZNSt9basic_iosIcSt11char_traitsIcEE4initEPSt15basic_streambufIcS1_E(void *ios, void *sb) {
  u8 *p = (u8 *)ios;
  memset(p + 216, 0, 48);
  *(void **)(p + 232) = sb;
  *(u32 *)(p + 28) = VIOS_GOOD;
  *(u32 *)(p + 32) = sb ? VIOS_GOOD : VIOS_BAD;
}
#endif
#ifdef USES__ZNSt9basic_iosIcSt11char_traitsIcEE5clearESt12_Ios_Iostate
static void M__ZNSt9basic_iosIcSt11char_traitsIcEE5clearESt12_Ios_Iostate(void *ios, u32 st) {
  u8 *p = (u8 *)ios;
  *(u32 *)(p + 32) = verif_ios_sb(p) ? st : (st | VIOS_BAD);
  VERIF_MODEL((*(u32 *)(p + 28) & *(u32 *)(p + 32)) == 0, "stream exception mask set: ios_base::failure not modelled");
}
#endif
#ifdef USES__ZNSt6localeC1Ev
static void M__ZNSt6localeC1Ev(void *self) { *(void **)self = 0; }
#endif
#ifdef USES__ZNSt6localeD1Ev
static void M__ZNSt6localeD1Ev(void *self) { (void)self; }
#endif
/* optional fault injection (C20): the stream turns bad once `verif_stream_fail_at` bytes have been transferred */
/* byte copy between a stream buffer and the caller: its own loop so that harnesses can bound it separately from message strings */
static inline void verif_stream_copy(void *d, const void *s, u64 n) {
  u8 *dd = (u8 *)d; const u8 *ss = (const u8 *)s;
  for (u64 i = 0; i < n; i++) dd[i] = ss[i];
}
static s64 verif_stream_fail_at = -1;
static u64 verif_stream_xfer;
#ifdef USES__ZNSi4readEPcl
static void *M__ZNSi4readEPcl(void *self, void *dst, s64 n) {
  u8 *ios = verif_ios_of(self);
  *(s64 *)((u8 *)self + 8) = 0;                         /* _M_gcount */
  if (*verif_ios_state(ios) != VIOS_GOOD) { verif_ios_setstate(ios, VIOS_FAIL); return self; }   /* sentry */
  struct verif_sb *sb = (struct verif_sb *)verif_ios_sb(ios);
  s64 avail = (s64)(sb->in_end - sb->in_cur);
  s64 k = n < avail ? n : avail;
  if (k < 0) k = 0;
  if (verif_stream_fail_at >= 0 && (s64)verif_stream_xfer + k > verif_stream_fail_at) {
    k = verif_stream_fail_at - (s64)verif_stream_xfer; if (k < 0) k = 0;
    verif_stream_copy(dst, sb->in_cur, (u64)k); sb->in_cur += k; verif_stream_xfer += (u64)k;
    *(s64 *)((u8 *)self + 8) = k;
    verif_ios_setstate(ios, VIOS_BAD);
    return self;
  }
  verif_stream_copy(dst, sb->in_cur, (u64)k);
  sb->in_cur += k; verif_stream_xfer += (u64)k;
  *(s64 *)((u8 *)self + 8) = k;
  if (k != n) verif_ios_setstate(ios, VIOS_EOF | VIOS_FAIL);
  return self;
}
#endif
#ifdef USES__ZNSi4peekEv
static s32 M__ZNSi4peekEv(void *self) {
  u8 *ios = verif_ios_of(self);
  *(s64 *)((u8 *)self + 8) = 0;
  if (*verif_ios_state(ios) != VIOS_GOOD) { verif_ios_setstate(ios, VIOS_FAIL); return -1; }
  struct verif_sb *sb = (struct verif_sb *)verif_ios_sb(ios);
  if (sb->in_cur == sb->in_end) { verif_ios_setstate(ios, VIOS_EOF); return -1; }
  return (s32)*sb->in_cur;
}
#endif
struct verif_ret2 { u64 a, b; };
#ifdef USES__ZNSi5tellgEv
static struct verif_ret2 M__ZNSi5tellgEv(void *self) {
  u8 *ios = verif_ios_of(self);
  struct verif_ret2 r; r.b = 0;
  if (*verif_ios_state(ios) & (VIOS_BAD | VIOS_FAIL)) { r.a = (u64)-1; return r; }
  struct verif_sb *sb = (struct verif_sb *)verif_ios_sb(ios);
  r.a = (u64)(sb->in_cur - sb->in_beg);
  return r;
}
#endif
#ifdef USES__ZNSi5seekgESt4fposI11__mbstate_tE
static void *M__ZNSi5seekgESt4fposI11__mbstate_tE(void *self, u64 off, u64 st) {
  (void)st;
  u8 *ios = verif_ios_of(self);
  /* C++11: seekg first clears eofbit; it is a no-op when fail() */
  *verif_ios_state(ios) &= ~(u32)VIOS_EOF;
  if (*verif_ios_state(ios) & (VIOS_BAD | VIOS_FAIL)) return self;
  struct verif_sb *sb = (struct verif_sb *)verif_ios_sb(ios);
  s64 size = (s64)(sb->in_end - sb->in_beg);
  if ((s64)off < 0 || (s64)off > size) { verif_ios_setstate(ios, VIOS_FAIL); return self; }
  sb->in_cur = sb->in_beg + (s64)off;
  return self;
}
#endif
#ifdef USES__ZNSo3putEc
static void *M__ZNSo3putEc(void *self, u8 c) {
  u8 *ios = verif_ios_of(self);
  if (*verif_ios_state(ios) != VIOS_GOOD) { verif_ios_setstate(ios, VIOS_FAIL); return self; }   /* sentry */
  struct verif_sb *sb = (struct verif_sb *)verif_ios_sb(ios);
  if (sb->out_cur == sb->out_end || (verif_stream_fail_at >= 0 && (s64)verif_stream_xfer >= verif_stream_fail_at)) { verif_ios_setstate(ios, VIOS_BAD); return self; }
  *sb->out_cur++ = c; verif_stream_xfer++;
  return self;
}
#endif
#ifdef USES__ZNSo5writeEPKcl
static void *M__ZNSo5writeEPKcl(void *self, void *src, s64 n) {
  u8 *ios = verif_ios_of(self);
  if (*verif_ios_state(ios) != VIOS_GOOD) { verif_ios_setstate(ios, VIOS_FAIL); return self; }
  struct verif_sb *sb = (struct verif_sb *)verif_ios_sb(ios);
  s64 room = (s64)(sb->out_end - sb->out_cur);
  if (verif_stream_fail_at >= 0 && verif_stream_fail_at - (s64)verif_stream_xfer < room) room = verif_stream_fail_at - (s64)verif_stream_xfer;
  if (room < 0) room = 0;
  s64 k = n < room ? n : room;
  if (k < 0) k = 0;
  verif_stream_copy(sb->out_cur, src, (u64)k);
  sb->out_cur += k; verif_stream_xfer += (u64)k;
  if (k != n) verif_ios_setstate(ios, VIOS_BAD);
  return self;
}
#endif
/* virtual members of std::streambuf referenced from the harness streambuf vtables: never called (read/write/seek are modelled above) */
#define VERIF_SB_UNUSED(name, ret, params) static ret M_##name params { VERIF_MODEL(0, "unexpected virtual call into std::streambuf: " #name); return (ret)0; }
#ifdef USES__ZNSt15basic_streambufIcSt11char_traitsIcEE5imbueERKSt6locale
static void M__ZNSt15basic_streambufIcSt11char_traitsIcEE5imbueERKSt6locale(void *a, void *b) { (void)a; (void)b; }
#endif
#ifdef USES__ZNSt15basic_streambufIcSt11char_traitsIcEE6setbufEPcl
VERIF_SB_UNUSED(_ZNSt15basic_streambufIcSt11char_traitsIcEE6setbufEPcl, void *, (void *a, void *b, s64 c))
#endif
#ifdef USES__ZNSt15basic_streambufIcSt11char_traitsIcEE4syncEv
VERIF_SB_UNUSED(_ZNSt15basic_streambufIcSt11char_traitsIcEE4syncEv, s32, (void *a))
#endif
#ifdef USES__ZNSt15basic_streambufIcSt11char_traitsIcEE9showmanycEv
VERIF_SB_UNUSED(_ZNSt15basic_streambufIcSt11char_traitsIcEE9showmanycEv, s64, (void *a))
#endif
#ifdef USES__ZNSt15basic_streambufIcSt11char_traitsIcEE6xsgetnEPcl
VERIF_SB_UNUSED(_ZNSt15basic_streambufIcSt11char_traitsIcEE6xsgetnEPcl, s64, (void *a, void *b, s64 c))
#endif
#ifdef USES__ZNSt15basic_streambufIcSt11char_traitsIcEE9underflowEv
VERIF_SB_UNUSED(_ZNSt15basic_streambufIcSt11char_traitsIcEE9underflowEv, s32, (void *a))
#endif
#ifdef USES__ZNSt15basic_streambufIcSt11char_traitsIcEE5uflowEv
VERIF_SB_UNUSED(_ZNSt15basic_streambufIcSt11char_traitsIcEE5uflowEv, s32, (void *a))
#endif
#ifdef USES__ZNSt15basic_streambufIcSt11char_traitsIcEE9pbackfailEi
VERIF_SB_UNUSED(_ZNSt15basic_streambufIcSt11char_traitsIcEE9pbackfailEi, s32, (void *a, s32 b))
#endif
#ifdef USES__ZNSt15basic_streambufIcSt11char_traitsIcEE6xsputnEPKcl
VERIF_SB_UNUSED(_ZNSt15basic_streambufIcSt11char_traitsIcEE6xsputnEPKcl, s64, (void *a, void *b, s64 c))
#endif
#ifdef USES__ZNSt15basic_streambufIcSt11char_traitsIcEE8overflowEi
VERIF_SB_UNUSED(_ZNSt15basic_streambufIcSt11char_traitsIcEE8overflowEi, s32, (void *a, s32 b))
#endif
#ifdef USES__ZNSt15basic_streambufIcSt11char_traitsIcEE7seekoffElSt12_Ios_SeekdirSt13_Ios_Openmode
static struct verif_ret2 M__ZNSt15basic_streambufIcSt11char_traitsIcEE7seekoffElSt12_Ios_SeekdirSt13_Ios_Openmode(void *a, s64 b, u32 c, u32 d) { struct verif_ret2 r; r.a = (u64)-1; r.b = 0; VERIF_MODEL(0, "unexpected virtual call streambuf::seekoff"); return r; }
#endif
#ifdef USES__ZNSt15basic_streambufIcSt11char_traitsIcEE7seekposESt4fposI11__mbstate_tESt13_Ios_Openmode
static struct verif_ret2 M__ZNSt15basic_streambufIcSt11char_traitsIcEE7seekposESt4fposI11__mbstate_tESt13_Ios_Openmode(void *a, u64 b, u64 b2, u32 d) { struct verif_ret2 r; r.a = (u64)-1; r.b = 0; VERIF_MODEL(0, "unexpected virtual call streambuf::seekpos"); return r; }
#endif

/* destructors of the libstdc++ stream classes referenced from harness vtables / destructor chains: nothing to release in the models */
#ifdef USES__ZNSoD0Ev
static void M__ZNSoD0Ev(void *self) { (void)self; }
#endif
#ifdef USES__ZNSoD1Ev
static void M__ZNSoD1Ev(void *self) { (void)self; }
#endif
#ifdef USES__ZNSoD2Ev
static void M__ZNSoD2Ev(void *self) { (void)self; }
#endif
#ifdef USES__ZTv0_n24_NSoD0Ev
static void M__ZTv0_n24_NSoD0Ev(void *self) { (void)self; }
#endif
#ifdef USES__ZTv0_n24_NSoD1Ev
static void M__ZTv0_n24_NSoD1Ev(void *self) { (void)self; }
#endif
#ifdef USES__ZNSiD0Ev
static void M__ZNSiD0Ev(void *self) { (void)self; }
#endif
#ifdef USES__ZNSiD1Ev
static void M__ZNSiD1Ev(void *self) { (void)self; }
#endif
#ifdef USES__ZNSiD2Ev
static void M__ZNSiD2Ev(void *self) { (void)self; }
#endif
#ifdef USES__ZTv0_n24_NSiD0Ev
static void M__ZTv0_n24_NSiD0Ev(void *self) { (void)self; }
#endif
#ifdef USES__ZTv0_n24_NSiD1Ev
static void M__ZTv0_n24_NSiD1Ev(void *self) { (void)self; }
#endif
#ifdef USES__ZNSt15basic_streambufIcSt11char_traitsIcEED2Ev
static void M__ZNSt15basic_streambufIcSt11char_traitsIcEED2Ev(void *self) { (void)self; }
#endif
#ifdef USES__ZNSt15basic_streambufIcSt11char_traitsIcEED1Ev
static void M__ZNSt15basic_streambufIcSt11char_traitsIcEED1Ev(void *self) { (void)self; }
#endif
#ifdef USES__ZNSt15basic_streambufIcSt11char_traitsIcEED0Ev
static void M__ZNSt15basic_streambufIcSt11char_traitsIcEED0Ev(void *self) { (void)self; }
#endif
#ifdef USES__ZNSt9basic_iosIcSt11char_traitsIcEED2Ev
static void M__ZNSt9basic_iosIcSt11char_traitsIcEED2Ev(void *self) { (void)self; }
#endif
#ifdef USES__ZNSt9basic_iosIcSt11char_traitsIcEED1Ev
static void M__ZNSt9basic_iosIcSt11char_traitsIcEED1Ev(void *self) { (void)self; }
#endif
#ifdef USES__ZNSt9basic_iosIcSt11char_traitsIcEED0Ev
static void M__ZNSt9basic_iosIcSt11char_traitsIcEED0Ev(void *self) { (void)self; }
#endif

/* ---------------------------------------------------------------- BitSerializer exception constructor (message text not built)
 * SerializationException(code, const char*) builds `ToString(code) + ": " + message` - string work on heap objects that
 * is irrelevant to every property checked (messages are never observed) and very expensive symbolically.  The model
 * performs the observable part: vptr, error code, message pointer kept for what(). */
#ifdef USES__ZN13BitSerializer22SerializationExceptionC2ENS_22SerializationErrorCodeEPKc
static void M__ZN13BitSerializer22SerializationExceptionC2ENS_22SerializationErrorCodeEPKc(void *self, u32 code, void *msg) {
  verif_stdexc_init(self, msg);
  *(void **)self = (void *)&g__ZTVN13BitSerializer22SerializationExceptionE.f0[2];
  *(u32 *)((u8 *)self + 16) = code;
}
#endif

/* ---------------------------------------------------------------- optional models (MO_*: used only when a harness asks with //@ OVERRIDE)
 * Number -> text used ONLY inside diagnostic messages of the MsgPack/CSV readers ("Invalid size of timestamp: <n>").  The digit
 * loops (division by 100 / 10000 of a symbolic value) dominate the formula although no property observes the text. */
#ifdef USES__ZN13BitSerializer7Convert6Detail2ToImcSaIcELi0EEEvRKT_RNSt7__cxx1112basic_stringIT0_St11char_traitsIS9_ET1_EE
static void MO__ZN13BitSerializer7Convert6Detail2ToImcSaIcELi0EEEvRKT_RNSt7__cxx1112basic_stringIT0_St11char_traitsIS9_ET1_EE(void *in, void *out) {
  (void)in; u8 q = '?'; verif_str_append(VSTR(out), &q, 1, 1);
}
#endif

/* ---------------------------------------------------------------- snprintf("%04ld-%02d-%02dT%02d:%02d:%02d") used by PrintIsoUtc
 * Captures the arguments (so that a harness can read the calendar fields the library computed without parsing digits) and
 * renders the text.  mode 0: exact decimal rendering (digit loop, use with bounded years); mode 1: exact LENGTH but '0'
 * placeholder digits (no division: for buffer-safety obligations over the full 64-bit range).  Returns, as C requires, the
 * length the complete text would have; writes at most size-1 characters plus the terminating NUL. */
static s64 verif_snprintf_args[6];
static s32 verif_snprintf_mode_v;
static u32 verif_snprintf_calls;
#ifdef USES_verif_snprintf_mode
static void M_verif_snprintf_mode(s32 m) { verif_snprintf_mode_v = m; }
#endif
#ifdef USES_verif_snprintf_arg
static s64 M_verif_snprintf_arg(s32 i) { return verif_snprintf_args[i]; }
#endif
#ifdef USES_VA9_snprintf
static inline u32 verif_ndigits_u64(u64 v) {
  u32 n = 1; u64 p = 10;
  for (u32 i = 0; i < 19; i++) { if (v >= p) { n++; if (i < 18) p *= 10; else break; } else break; }
  return n;
}
u32 VA9_snprintf(u8 *buf, u64 size, u8 *fmt, u64 year, u32 mon, u32 day, u32 hour, u32 min, u32 sec) {
  static const char expect[] = "%04ld-%02d-%02dT%02d:%02d:%02d";
  for (u32 i = 0; i < sizeof(expect); i++) VERIF_MODEL(fmt[i] == (u8)expect[i], "snprintf format string differs from the modelled one");
  verif_snprintf_calls++;
  verif_snprintf_args[0] = (s64)year; verif_snprintf_args[1] = (s32)mon; verif_snprintf_args[2] = (s32)day;
  verif_snprintf_args[3] = (s32)hour; verif_snprintf_args[4] = (s32)min; verif_snprintf_args[5] = (s32)sec;
  u8 tmp[48]; u32 n = 0;
  s64 y = (s64)year;
  u64 ay = y < 0 ? (u64)0 - (u64)y : (u64)y;
  if (y < 0) tmp[n++] = '-';
  u32 nd = verif_ndigits_u64(ay);
  u32 width = nd;
  /* %04ld pads to a total field width of 4 including the sign */
  u32 minw = y < 0 ? 3 : 4;
  if (width < minw) width = minw;
  if (verif_snprintf_mode_v == 0) {
    u64 r = ay;
    for (u32 i = 0; i < width; i++) { tmp[n + width - 1 - i] = (u8)('0' + (u32)(r % 10)); r /= 10; }
  } else {
    for (u32 i = 0; i < width; i++) tmp[n + i] = '0';
  }
  n += width;
  u32 f[5]; f[0] = mon; f[1] = day; f[2] = hour; f[3] = min; f[4] = sec;
  static const char sep[5] = { '-', '-', 'T', ':', ':' };
  for (u32 k = 0; k < 5; k++) {
    tmp[n++] = (u8)sep[k];
    s32 v = (s32)f[k];
    VERIF_MODEL(v >= 0 && v <= 99, "snprintf model: two-digit field out of 0..99");
    tmp[n++] = (u8)('0' + (u32)v / 10); tmp[n++] = (u8)('0' + (u32)v % 10);
  }
  if (size > 0) {
    u32 w = n < size - 1 ? n : (u32)(size - 1);
    for (u32 i = 0; i < 47; i++) if (i < w) buf[i] = tmp[i];
    buf[w] = 0;
  }
  return (u32)n;
}
#endif

/* std::string destructor (out-of-line instance used for static-duration strings) and atexit registration */
#ifdef USES__ZNSt7__cxx1112basic_stringIcSt11char_traitsIcESaIcEED2Ev
static void M__ZNSt7__cxx1112basic_stringIcSt11char_traitsIcESaIcEED2Ev(void *S) { verif_str_dispose(VSTR(S)); }
#endif
#ifdef USES__ZNSt7__cxx1112basic_stringIcSt11char_traitsIcESaIcEED1Ev
static void M__ZNSt7__cxx1112basic_stringIcSt11char_traitsIcESaIcEED1Ev(void *S) { verif_str_dispose(VSTR(S)); }
#endif
#ifdef USES___cxa_atexit
static s32 M___cxa_atexit(void *f, void *a, void *d) { (void)f; (void)a; (void)d; return 0; }   /* destructors of statics are not run */
#endif
#ifdef USES_strcmp
static s32 M_strcmp(void *a, void *b) { const u8 *x = (const u8 *)a, *y = (const u8 *)b; u64 i = 0; while (x[i] && x[i] == y[i]) i++; return (s32)x[i] - (s32)y[i]; }
#endif

/* ---------------------------------------------------------------- std::_Rb_tree support functions (binary-only in libstdc++.so)
 * Node base layout: { int color; node* parent; node* left; node* right; }.  Insertion links the node WITHOUT rebalancing: the
 * tree stays a valid binary search tree (lookup / ordered iteration are functionally identical), only its shape differs. */
struct verif_rb { s32 color; struct verif_rb *parent, *left, *right; };
#ifdef USES__ZSt29_Rb_tree_insert_and_rebalancebPSt18_Rb_tree_node_baseS0_RS_
static void M__ZSt29_Rb_tree_insert_and_rebalancebPSt18_Rb_tree_node_baseS0_RS_(u1 insert_left, void *xv, void *pv, void *hv) {
  struct verif_rb *x = (struct verif_rb *)xv, *p = (struct verif_rb *)pv, *h = (struct verif_rb *)hv;
  x->parent = p; x->left = 0; x->right = 0; x->color = 0;
  if (insert_left) {
    p->left = x;                       /* also makes leftmost = x when p is the header */
    if (p == h) { h->parent = x; h->right = x; }
    else if (p == h->left) h->left = x;
  } else {
    p->right = x;
    if (p == h->right) h->right = x;
  }
}
#endif
static inline struct verif_rb *verif_rb_increment(struct verif_rb *x) {
  if (x->right) { x = x->right; while (x->left) x = x->left; return x; }
  struct verif_rb *y = x->parent;
  while (x == y->right) { x = y; y = y->parent; }
  if (x->right != y) x = y;
  return x;
}
static inline struct verif_rb *verif_rb_decrement(struct verif_rb *x) {
  if (x->color == 0 && x->parent && x->parent->parent == x && 0) return x->right;
  if (x->left) { struct verif_rb *y = x->left; while (y->right) y = y->right; return y; }
  struct verif_rb *y = x->parent;
  while (x == y->left) { x = y; y = y->parent; }
  return y;
}
#ifdef USES__ZSt18_Rb_tree_incrementPSt18_Rb_tree_node_base
static void *M__ZSt18_Rb_tree_incrementPSt18_Rb_tree_node_base(void *x) { return verif_rb_increment((struct verif_rb *)x); }
#endif
#ifdef USES__ZSt18_Rb_tree_incrementPKSt18_Rb_tree_node_base
static void *M__ZSt18_Rb_tree_incrementPKSt18_Rb_tree_node_base(void *x) { return verif_rb_increment((struct verif_rb *)x); }
#endif
#ifdef USES__ZSt18_Rb_tree_decrementPSt18_Rb_tree_node_base
static void *M__ZSt18_Rb_tree_decrementPSt18_Rb_tree_node_base(void *x) { return verif_rb_decrement((struct verif_rb *)x); }
#endif
#ifdef USES__ZSt18_Rb_tree_decrementPKSt18_Rb_tree_node_base
static void *M__ZSt18_Rb_tree_decrementPKSt18_Rb_tree_node_base(void *x) { return verif_rb_decrement((struct verif_rb *)x); }
#endif
#ifdef USES__ZNKSt7__cxx1112basic_stringIcSt11char_traitsIcESaIcEE7compareEPKc
static s32 M__ZNKSt7__cxx1112basic_stringIcSt11char_traitsIcESaIcEE7compareEPKc(void *S, void *cs) {
  struct verif_string *s = VSTR(S); const u8 *c = (const u8 *)cs;
  u64 n = 0; while (c[n]) n++;
  u64 m = s->size < n ? s->size : n;
  for (u64 i = 0; i < m; i++) { if (s->p[i] != c[i]) return s->p[i] < c[i] ? -1 : 1; }
  return s->size < n ? -1 : (s->size > n ? 1 : 0);
}
#endif
