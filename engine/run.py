#!/usr/bin/env python3
"""Obligation runner: harness.cpp -> IR -> C -> CBMC verdict -> native replay -> evidence.

  run.py check <PROPERTY> [--tier quick|thorough] [--only obl1,obl2] [--keep]
  run.py replay <PROPERTY> <replay.json>

Exit codes: 0 all obligations hold within bounds (known findings printed), 1 confirmed violation,
2 engine failure (build/translation error, validation mismatch, unreachable witness, time-out, unconfirmed cex).
"""
import sys, os, re, json, subprocess, tempfile, shutil, time, random, signal, hashlib, threading
from concurrent.futures import ThreadPoolExecutor

ENGINE = os.path.dirname(os.path.abspath(__file__))
VERIF = os.path.dirname(ENGINE)
REPO = os.environ.get('VERIF_REPO', '/repo')
_SCRATCH = []      # scratch directories and solver process groups of this run: cleaned up on SIGTERM / SIGINT as well
_PGIDS = set()
def _on_term(signum, frame):
    for pg in list(_PGIDS):
        try: os.killpg(pg, signal.SIGKILL)
        except Exception: pass
    for d_ in _SCRATCH: shutil.rmtree(d_, ignore_errors=True)
    os._exit(128 + signum)
MODELS = os.path.join(ENGINE, 'models')
NCPU = os.cpu_count() or 4
HOOK_DEFINE = 'BITSERIALIZER_VERIF'

IRFLAGS = ['-std=c++17', '-O1', '-mllvm', '-simplifycfg-sink-common=false', '-fno-vectorize', '-fno-slp-vectorize', '-fno-unroll-loops',
           '-fno-builtin-isdigit', '-fno-builtin-isspace', '-fno-builtin-tolower', '-fno-builtin-memcmp',
           '-I' + REPO + '/include', '-I' + REPO + '/src', '-I' + VERIF + '/harness', '-S', '-emit-llvm',
           '-D' + HOOK_DEFINE + '=1', '-DVERIF_SYMBOLIC=1',
           # source-level undefined behaviour becomes an explicit llvm.ubsantrap branch in the IR (translated to a UB assertion)
           '-fsanitize=signed-integer-overflow,shift,integer-divide-by-zero,float-cast-overflow,bounds,unreachable,return',
           '-fsanitize-trap=all']
NATFLAGS = ['-std=c++17', '-O1', '-g', '-I' + REPO + '/include', '-I' + REPO + '/src', '-I' + VERIF + '/harness',
            '-D' + HOOK_DEFINE + '=1']

CBMC_BASE = ['--drop-unused-functions', '--no-malloc-may-fail', '--unwinding-assertions', '--div-by-zero-check',
             '--undefined-shift-check', '--stop-on-fail', '--trace', '--no-standard-checks', '--bounds-check',
             '--pointer-check', '--pointer-primitive-check', '--malloc-fail-null']
CBMC_BASE = ['--drop-unused-functions', '--no-malloc-may-fail', '--unwinding-assertions', '--trace', '--object-bits', '12', '--verbosity', '8',
             '--max-field-sensitivity-array-size', '0']

def log(*a):
    sys.stderr.write(' '.join(str(x) for x in a) + '\n'); sys.stderr.flush()

def sh(cmd, cwd=None, timeout=None, env=None):
    t0 = time.time()
    p = subprocess.run(cmd, cwd=cwd, stdout=subprocess.PIPE, stderr=subprocess.STDOUT, timeout=timeout, env=env)
    return p.returncode, p.stdout.decode('utf-8', 'replace'), time.time() - t0

class EngineError(Exception):
    pass

# ---------------------------------------------------------------- harness parsing
def parse_harness(path, scratch):
    src = path
    if path.endswith('.gen.py'):
        rc, out, _ = sh([sys.executable, path])
        if rc != 0: raise EngineError('harness generator failed: %s\n%s' % (path, out))
        src = os.path.join(scratch, os.path.basename(path)[:-7] + '.cpp')
        open(src, 'w').write(out)
    txt = open(src).read()
    h = {'path': path, 'src': src, 'name': os.path.basename(src)[:-4], 'link': [], 'cxxflags': [], 'override': [], 'stub': [],
         'obls': [], 'vec': {}, 'property': None, 'ir2c': []}
    for m in re.finditer(r'^//@\s*(\w+)\s*(.*)$', txt, re.M):
        k, v = m.group(1), m.group(2).strip()
        if k == 'PROPERTY': h['property'] = v
        elif k == 'LINK': h['link'] += v.split()
        elif k == 'CXXFLAGS': h['cxxflags'] += v.split()
        elif k == 'OVERRIDE': h['override'] += v.split()
        elif k == 'STUB': h['stub'] += v.split()
        elif k == 'IR2C': h['ir2c'] += v.split()
        elif k == 'MODELDEF': h.setdefault('modeldef', []).extend(v.split())
        elif k == 'OBL':
            o = json.loads(v)
            o.setdefault('tier', 'quick'); o.setdefault('unwind', 2); o.setdefault('out', 16)
            o.setdefault('cap_s', 1500); o.setdefault('backends', ['default'])
            o['harness'] = h['name']
            h['obls'].append(o)
        elif k == 'VEC':
            nm, hx = v.split(None, 1)
            h['vec'].setdefault(nm, []).append(hx.replace(' ', ''))
    return h

# ---------------------------------------------------------------- build
def build_ir(h, d):
    ll = []
    rc, out, t = sh(['clang++-14'] + IRFLAGS + h['cxxflags'] + [h['src'], '-o', os.path.join(d, 'h.ll')])
    if rc != 0: raise EngineError('clang++ (IR) failed for %s:\n%s' % (h['name'], out[-4000:]))
    ll.append(os.path.join(d, 'h.ll'))
    for u in h['link']:
        o = os.path.join(d, re.sub(r'\W', '_', u) + '.ll')
        rc, out, t = sh(['clang++-14'] + IRFLAGS + h['cxxflags'] + [os.path.join(REPO, 'src', u), '-o', o])
        if rc != 0: raise EngineError('clang++ (IR) failed for %s:\n%s' % (u, out[-4000:]))
        ll.append(o)
    allp = os.path.join(d, 'all.ll')
    if len(ll) > 1:
        rc, out, t = sh(['llvm-link-14', '-S'] + ll + ['-o', allp])
        if rc != 0: raise EngineError('llvm-link failed:\n' + out[-4000:])
    else:
        shutil.copy(ll[0], allp)
    return allp

def roots_of(h, obls):
    r = []
    for o in obls:
        for k in ('prop', 'assume', 'known'):
            if o.get(k) and o[k] not in r: r.append(o[k])
    return r

def translate(h, d, obls):
    allp = os.path.join(d, 'all.ll')
    cmd = [sys.executable, os.path.join(ENGINE, 'ir2c.py'), allp, os.path.join(d, 'gen.c'), '--roots', ','.join(roots_of(h, obls)),
           '--list-functions']
    if h['override']: cmd += ['--override', ','.join(h['override'])]
    if h['stub']: cmd += ['--stub', ','.join(h['stub'])]
    cmd += h['ir2c']
    p = subprocess.run(cmd, stdout=subprocess.PIPE, stderr=subprocess.PIPE)
    if p.returncode != 0:
        raise EngineError('ir2c failed for %s:\n%s' % (h['name'], p.stderr.decode()[-4000:]))
    for l in p.stderr.decode().splitlines(): log('   ', l)
    return [l for l in p.stdout.decode().split('\n') if l]

def driver_c(o, known_classes, witness_only=False):
    n, m = o['in'], o['out']
    L = ['#include <stdint.h>', '#include <string.h>',
         'void verif_global_ctors(void);',
         'uint32_t %s(uint8_t *in, uint8_t *out);' % o['prop']]
    if o.get('assume'): L.append('uint32_t %s(uint8_t *in);' % o['assume'])
    if o.get('known'): L.append('uint32_t %s(uint8_t *in);' % o['known'])
    L += ['struct verif_inb { uint8_t b[%d]; };' % n, 'struct verif_inb nondet_verif_inb(void);',
          'struct verif_inb verif_in;', 'uint8_t verif_out[%d];' % max(m, 1),
          'static inline int64_t RD64(const uint8_t *b, int off) { int64_t v; memcpy(&v, b + off, 8); return v; }',
          'static inline int32_t RD32(const uint8_t *b, int off) { int32_t v; memcpy(&v, b + off, 4); return v; }',
          'static inline int16_t RD16(const uint8_t *b, int off) { int16_t v; memcpy(&v, b + off, 2); return v; }',
          'void verif_driver(void) {', '  verif_global_ctors();', '  verif_in = nondet_verif_inb();']
    for ca in o.get('cassume', []):
        L.append('  __CPROVER_assume(%s);' % re.sub(r'\bin\b', 'verif_in.b', ca))
    if o.get('assume'):
        L.append('  __CPROVER_assume(%s(verif_in.b) != 0);' % o['assume'])
    if o.get('known') and known_classes:
        L.append('  { int k_ = %s(verif_in.b); __CPROVER_assume(%s); }' % (o['known'], ' && '.join('k_ != %d' % c for c in known_classes)))
    L.append('  uint32_t r_ = %s(verif_in.b, verif_out);' % o['prop'])
    L.append('  __CPROVER_assert(r_ == 1, "PROPERTY: %s");' % o['name'])
    L.append('  __CPROVER_assert(0, "WITNESS: end of harness reachable");')
    L.append('}')
    return '\n'.join(L) + '\n'

NATIVE_MAIN = r'''
#include <cstdio>
#include <cstdlib>
#include <cstring>
#include <cstdint>
#include <string>
#include <exception>
extern "C" {
%(decls)s
}
extern "C" void verif_symbolic_phase(void) {}
extern "C" void verif_nogrow(void*) {}
extern "C" void verif_snprintf_mode(int) {}
extern "C" long verif_snprintf_arg(int) { return 0; }
struct Ent { const char* name; int (*prop)(const uint8_t*, uint8_t*); int (*assume)(const uint8_t*); int (*known)(const uint8_t*); int in, out; };
static Ent ents[] = {
%(ents)s
};
static int hexv(int c){ return c<='9'? c-'0' : (c|32)-'a'+10; }
int main(int argc, char** argv) {
  char name[256]; static char hex[1<<16];
  while (scanf("%%255s %%65535s", name, hex) == 2) {
    Ent* e = nullptr;
    for (auto& x : ents) if (!strcmp(x.name, name)) e = &x;
    if (!e) { printf("%%s ?\n", name); continue; }
    static uint8_t in[1<<15], out[1<<15];
    memset(in, 0, sizeof in); memset(out, 0, sizeof out);
    size_t hl = strlen(hex);
    for (size_t i = 0; i + 1 < hl && i/2 < (size_t)e->in; i += 2) in[i/2] = (uint8_t)(hexv(hex[i])*16 + hexv(hex[i+1]));
    int a = e->assume ? e->assume(in) : 1;
    int k = e->known ? e->known(in) : 0;
    printf("%%s a=%%d k=%%d ", name, a, k); fflush(stdout);
    int r = e->prop(in, out);
    printf("r=%%d out=", r);
    for (int i = 0; i < e->out; i++) printf("%%02x", out[i]);
    printf("\n"); fflush(stdout);
  }
  return 0;
}
'''

GEN_MAIN_C = r'''
#include <stdio.h>
#include <stdlib.h>
#include <string.h>
#include <stdint.h>
void verif_global_ctors(void);
%(decls)s
struct Ent { const char* name; int (*prop)(const uint8_t*, uint8_t*); int (*assume)(const uint8_t*); int (*known)(const uint8_t*); int in, out; };
static struct Ent ents[] = {
%(ents)s
};
static int hexv(int c){ return c<='9'? c-'0' : (c|32)-'a'+10; }
int main(int argc, char** argv) {
  char name[256]; static char hex[1<<16];
  verif_global_ctors();
  while (scanf("%%255s %%65535s", name, hex) == 2) {
    struct Ent* e = 0;
    for (unsigned j = 0; j < sizeof ents / sizeof ents[0]; j++) if (!strcmp(ents[j].name, name)) e = &ents[j];
    if (!e) { printf("%%s ?\n", name); continue; }
    static uint8_t in[1<<15], out[1<<15];
    memset(in, 0, sizeof in); memset(out, 0, sizeof out);
    size_t hl = strlen(hex);
    for (size_t i = 0; i + 1 < hl && i/2 < (size_t)e->in; i += 2) in[i/2] = (uint8_t)(hexv(hex[i])*16 + hexv(hex[i+1]));
    int a = e->assume ? e->assume(in) : 1;
    int k = e->known ? e->known(in) : 0;
    printf("%%s a=%%d k=%%d ", name, a, k); fflush(stdout);
    int r = e->prop(in, out);
    printf("r=%%d out=", r);
    for (int i = 0; i < e->out; i++) printf("%%02x", out[i]);
    printf("\n"); fflush(stdout);
  }
  return 0;
}
'''

def native_sources(h, d, obls, all_obls=None):
    """generated-C main covers the selected obligations; the native (real) main covers every obligation of the harness file
    (known-finding witnesses are replayed natively even when their obligation belongs to another tier)"""
    subs = []
    for lst in (obls, all_obls or obls):
        subs.append(_native_tables(lst))
    open(os.path.join(d, 'native_main.cpp'), 'w').write(NATIVE_MAIN % subs[1])
    open(os.path.join(d, 'gen_main.c'), 'w').write(GEN_MAIN_C % subs[0])

def _native_tables(obls):
    decls, ents = [], []
    seen = set()
    for o in obls:
        for k in ('prop', 'assume', 'known'):
            f = o.get(k)
            if f and f not in seen:
                seen.add(f)
                decls.append('int %s(const uint8_t*%s);' % (f, ', uint8_t*' if k == 'prop' else ''))
        ents.append('  {"%s", %s, %s, %s, %d, %d},' % (o['name'], o['prop'], o.get('assume') or '0', o.get('known') or '0', o['in'], o['out']))
    return {'decls': '\n'.join(decls), 'ents': '\n'.join(ents)}

def build_native(h, d, sanitize=True):
    """native build of the real harness (g++); returns path"""
    exe = os.path.join(d, 'native_real')
    srcs = [h['src'], os.path.join(d, 'native_main.cpp')] + [os.path.join(REPO, 'src', u) for u in h['link']]
    flags = list(NATFLAGS) + [f for f in h['cxxflags'] if f.startswith('-D') or f.startswith('-I') or f == '-fno-access-control']
    if sanitize: flags += ['-fsanitize=address,undefined,float-cast-overflow,float-divide-by-zero', '-fno-sanitize-recover=all', '-fno-omit-frame-pointer']
    # compile units in parallel
    objs = []
    def cc(s):
        o = os.path.join(d, 'n_' + re.sub(r'\W', '_', os.path.basename(s)) + '.o')
        rc, out, t = sh(['g++'] + flags + ['-c', s, '-o', o])
        if rc != 0: raise EngineError('g++ failed for %s:\n%s' % (s, out[-4000:]))
        return o
    with ThreadPoolExecutor(max_workers=8) as ex:
        objs = list(ex.map(cc, srcs))
    rc, out, t = sh(['g++'] + flags + objs + ['-o', exe])
    if rc != 0: raise EngineError('g++ link failed:\n' + out[-4000:])
    return exe

def build_gen_native(h, d):
    exe = os.path.join(d, 'native_gen')
    rc, out, t = sh(['clang-14', '-O1', '-g', '-w', '-I' + MODELS] + ['-D' + x for x in h.get('modeldef', [])] + [os.path.join(d, 'gen.c'), os.path.join(d, 'gen_main.c'), '-o', exe, '-lm'])
    if rc != 0: raise EngineError('clang (generated C, native) failed:\n' + out[-6000:])
    return exe

def run_native(exe, lines, timeout=120):
    env = dict(os.environ)
    env['ASAN_OPTIONS'] = 'detect_leaks=1:abort_on_error=0:exitcode=99'
    env['UBSAN_OPTIONS'] = 'print_stacktrace=0:halt_on_error=1:exitcode=98'
    p = subprocess.run([exe], input=('\n'.join(lines) + '\n').encode(), stdout=subprocess.PIPE, stderr=subprocess.PIPE, timeout=timeout, env=env)
    return p.returncode, p.stdout.decode('utf-8', 'replace'), p.stderr.decode('utf-8', 'replace')

def run_native_each(exe, lines):
    """run inputs one process per line group, restarting after a crash; returns list of (line, result-string)"""
    res = []
    i = 0
    while i < len(lines):
        rc, out, err = run_native(exe, lines[i:])
        outs = [l for l in out.split('\n') if l]
        done = 0
        for l in outs:
            if ' r=' in l:
                res.append(l); done += 1
        if i + done >= len(lines):
            if 'LeakSanitizer' in err:
                # leaks are reported when the process exits: attribute them by running the inputs of this batch one by one
                if len(lines) - i == 1:
                    res[-1] = re.sub(r' r=\d+', ' r=0', res[-1], 1) + ' LEAK'
                else:
                    del res[len(res) - done:]
                    for l in lines[i:]: res += run_native_each(exe, [l])
            break
        # the (i+done)-th input crashed the process
        tag = 'CRASH rc=%d' % rc
        if 'terminate called' in err or 'std::terminate' in err: tag = 'TERMINATE'
        elif 'AddressSanitizer' in err:
            mm = re.search(r'AddressSanitizer: ([\w-]+)', err); tag = 'ASAN:' + (mm.group(1) if mm else '?')
        elif 'LeakSanitizer' in err: tag = 'LEAK'
        elif 'runtime error:' in err:
            mm = re.search(r'runtime error: (.*)', err); tag = 'UBSAN:' + (mm.group(1)[:100] if mm else '?')
        elif out.rstrip().split('\n')[-1].startswith('!'): tag = out.rstrip().split('\n')[-1]
        elif any(l.startswith('!') for l in outs): tag = [l for l in outs if l.startswith('!')][-1]
        partial = outs[-1] if outs and ' r=' not in outs[-1] else lines[i + done].split()[0]
        res.append('%s %s' % (partial.strip(), tag))
        i += done + 1
    return res

# ---------------------------------------------------------------- translation validation
def tv_inputs(h, obls, seed, n_random):
    rnd = random.Random(seed)
    lines = []
    for o in obls:
        for hx in h['vec'].get(o['name'], []) + h['vec'].get('*', []):
            lines.append('%s %s' % (o['name'], hx.ljust(2 * o['in'], '0')[:2 * o['in']]))
        for i in range(n_random):
            b = bytearray(rnd.getrandbits(8) for _ in range(o['in']))
            mode = i % 4
            if mode == 1:   # small values
                b = bytearray(x & 0x0f if rnd.random() < .6 else x for x in b)
            elif mode == 2:   # ascii-ish
                b = bytearray(rnd.choice(b'0123456789-+.,:TZPWDHMS eE\t"\r\n;|ab\x00\xff') if rnd.random() < .8 else x for x in b)
            elif mode == 3:   # sparse
                b = bytearray(x if rnd.random() < .3 else rnd.choice((0, 1, 0x7f, 0x80, 0xff)) for x in b)
            lines.append('%s %s' % (o['name'], bytes(b).hex()))
    return lines

def normalise(resline):
    # native runs may report richer crash tags than the model build; compare up to the category
    return resline

def translation_validation(h, d, obls, seed, n_random):
    lines = tv_inputs(h, obls, seed, n_random)
    if not lines: return {'inputs': 0, 'mismatches': 0}
    real = run_native_each(os.path.join(d, 'native_real'), lines)
    gen = run_native_each(os.path.join(d, 'native_gen'), lines)
    mism = []
    skipped = 0
    for ln, a, b in zip(lines, real, gen):
        if a == b: continue
        # crash/UB on one side: compare categories loosely - both must be "abnormal"
        ab_a = ' r=' not in a; ab_b = ' r=' not in b
        if ab_a and ab_b: continue
        if ab_b and ('BOUND:' in b or 'MODEL:' in b):
            skipped += 1; continue       # model capacity bound hit natively: outside the encoded bound, not a mismatch
        mism.append((ln, a, b))
    return {'inputs': len(lines), 'mismatches': len(mism), 'skipped_bound': skipped, 'detail': mism[:5]}

# ---------------------------------------------------------------- cbmc
def cbmc_cmd(o, d, backend, witness=False):
    cmd = ['cbmc', '-I', MODELS, os.path.join(d, 'gen.c'), os.path.join(d, 'drv_%s.c' % o['name']), '--function', 'verif_driver',
           '--unwind', str(o['unwind'])] + CBMC_BASE + o.get('cbmc', []) + ['-D' + x for x in o.get('_modeldef', [])]
    if 'fs' in o:      # per-obligation field-sensitivity array size (default 0 = arrays as whole symbols)
        i = cmd.index('--max-field-sensitivity-array-size'); cmd[i + 1] = str(o['fs'])
    for us in o.get('unwindset', []): cmd += ['--unwindset', us]
    if o.get('_unwindset'): cmd += ['--unwindset', ','.join(o['_unwindset'])]
    if backend == 'kissat': cmd += ['--external-sat-solver', 'kissat']
    elif backend == 'cadical': cmd += ['--sat-solver', 'cadical']
    elif backend == 'z3': cmd += ['--z3', '--slice-formula']
    elif backend == 'cvc5': cmd += ['--cvc5', '--slice-formula']      # with engine/shim first in PATH: cvc5 --solve-bv-as-int=sum
    return cmd

def loops_of(d, o):
    """loop ids reachable for this obligation (cbmc --show-loops after dropping unused functions)"""
    rc, out, t = sh(['cbmc', '-I', MODELS, os.path.join(d, 'gen.c'), os.path.join(d, 'drv_%s.c' % o['name']), '--function', 'verif_driver',
                     '--drop-unused-functions', '--show-loops'])
    return re.findall(r'^Loop (\S+):', out, re.M)

def resolve_unwind_fn(o, loops):
    """per-function unwinding bounds: {"regex on function name": K} -> --unwindset entries (first matching regex wins)"""
    us = []
    # byte loops of the models (message strings of exceptions are up to ~100 characters, concrete)
    spec = dict(o.get('unwind_fn', {}))
    spec.setdefault('^(M_strlen|verif_memcpy|verif_memmove|verif_memset|M_memcmp|M_bcmp)$', int(o.get('unwind_models', 128)))
    for lid in loops:
        fn = lid.rsplit('.', 1)[0]
        for rx, k in spec.items():
            if re.search(rx, fn):
                us.append('%s:%d' % (lid, k)); break
    return us

def parse_cbmc(out):
    """all-properties mode: per-property status, and for each failed property its trace (inputs extracted)"""
    r = {'verdict': None, 'failed': [], 'inputs': None, 'vars': None, 'clauses': None, 'solver_s': None, 'symex_s': None}
    if 'VERIFICATION SUCCESSFUL' in out: r['verdict'] = 'SUCCESS'
    elif 'VERIFICATION FAILED' in out: r['verdict'] = 'FAILED'
    m = re.search(r'(\d+) variables, (\d+) clauses', out)
    if m: r['vars'], r['clauses'] = int(m.group(1)), int(m.group(2))
    ss = [float(x) for x in re.findall(r'Runtime Solver: ([0-9.e+-]+)s', out)]
    if ss: r['solver_s'] = round(sum(ss), 3)
    m = re.search(r'Runtime Symex: ([0-9.e+-]+)s', out)
    if m: r['symex_s'] = round(float(m.group(1)), 3)
    m = re.search(r'size of program expression: (\d+) steps', out)
    r['ssa_steps'] = int(m.group(1)) if m else None
    m = re.search(r'Generated (\d+) VCC\(s\), (\d+) remaining after simplification', out)
    r['vccs'], r['vccs_nontrivial'] = (int(m.group(1)), int(m.group(2))) if m else (None, None)
    res_start = out.find('** Results:')
    body = out[res_start:] if res_start >= 0 else out
    r['nprops'] = len(re.findall(r'^\[[^\]]+\] .*: (?:SUCCESS|FAILURE)$', body, re.M))
    for m in re.finditer(r'^\[([^\]]+)\] (?:line \d+ )?(.*): FAILURE$', body, re.M):
        r['failed'].append({'id': m.group(1), 'desc': m.group(2)})
    # traces
    parts = re.split(r'^Trace for (\S+):$', body, flags=re.M)
    traces = {}
    for i in range(1, len(parts) - 1, 2):
        traces[parts[i]] = parts[i + 1]
    for f in r['failed']:
        t = traces.get(f['id'], '')
        ins = {}
        for m in re.finditer(r'verif_in\.b\[(\d+)l?\]=(\d+)', t):
            ins[int(m.group(1))] = int(m.group(2))
        for m in re.finditer(r'verif_in\.b=\{ ([^}]*) \}', t):
            ins = {i: int(v.strip()) & 255 for i, v in enumerate(m.group(1).split(','))}
        if ins:
            n = max(ins) + 1
            f['inputs'] = bytes(ins.get(i, 0) for i in range(n)).hex()
        vm = re.search(r'Violated property:\n\s+file (\S+) function (\S+) line (\d+)', t)
        if vm: f['where'] = '%s:%s' % (vm.group(2), vm.group(3))
    return r

def run_race(o, d, cap, witness=False):
    """race the configured back ends; first definite verdict wins"""
    backends = ['default'] if witness else o['backends']
    procs = []
    t0 = time.time()
    for b in backends:
        cmd = cbmc_cmd(o, d, b, witness)
        outp = os.path.join(d, 'cbmc_%s_%s%s.out' % (o['name'], b, '_w' if witness else ''))
        f = open(outp, 'w')
        # TMPDIR: CBMC writes the CNF / SMT2 problem for external solvers to a temp file (up to > 1 GB); a back end that loses the
        # race is killed and would leave it behind - inside the scratch directory it is removed with it
        tmpd = os.path.join(d, 'tmp_%s_%s' % (o['name'], b)); os.makedirs(tmpd, exist_ok=True)
        pre = 'ulimit -v %d; export TMPDIR=%s PATH=%s:$PATH; exec ' % (o.get('mem_gb', 12) * 1024 * 1024, tmpd, os.path.join(ENGINE, 'shim'))
        p = subprocess.Popen(['bash', '-c', pre + ' '.join("'%s'" % c for c in cmd) + ' 2>&1'], stdout=f, stderr=subprocess.STDOUT,
                             preexec_fn=os.setsid)
        _PGIDS.add(p.pid)
        procs.append((b, p, outp, f))
    winner = None
    try:
        while time.time() - t0 < cap:
            alive = 0
            for (b, p, outp, f) in procs:
                rc = p.poll()
                if rc is None:
                    alive += 1; continue
                out = open(outp).read()
                r = parse_cbmc(out)
                if r['verdict']:
                    winner = (b, r, out); break
            if winner or alive == 0: break
            time.sleep(0.2)
    finally:
        for (b, p, outp, f) in procs:
            if p.poll() is None:
                try: os.killpg(p.pid, signal.SIGKILL)
                except Exception: pass
                try: p.wait(timeout=10)
                except Exception: pass
            f.close()
            shutil.rmtree(os.path.join(d, 'tmp_%s_%s' % (o['name'], b)), ignore_errors=True)
    el = time.time() - t0
    if winner:
        b, r, out = winner
        r['backend'] = b; r['wall_s'] = round(el, 2)
        return r
    # no verdict
    tails = {}
    for (b, p, outp, f) in procs:
        try: tails[b] = open(outp).read()[-1500:]
        except Exception: tails[b] = ''
    return {'verdict': None, 'wall_s': round(el, 2), 'timeout': el >= cap, 'tails': tails}

CLASSES = ('PROPERTY:', 'WITNESS:', 'UB:', 'TERMINATE:', 'TRAP:', 'BOUND:', 'MODEL:', 'SHARED-WRITE:')
def classify(desc):
    for c in CLASSES:
        if desc.startswith(c): return c[:-1]
    if 'unwinding assertion' in desc: return 'UNWIND'
    if 'recursion' in desc: return 'UNWIND'
    return 'MEMSAFETY'     # cbmc built-in pointer/bounds/overflow checks

# ---------------------------------------------------------------- known findings
def load_findings():
    p = os.path.join(VERIF, 'known_findings.json')
    if not os.path.exists(p): return []
    return json.load(open(p))['findings']

# ---------------------------------------------------------------- main check
def check(prop, tier, only=None, keep=False, seed=0):
    t_start = time.time()
    hdir = os.path.join(VERIF, 'harness')
    files = sorted(f for f in os.listdir(hdir) if (f.endswith('.cpp') or f.endswith('.gen.py')) and f.startswith(prop + '_'))
    scratch = tempfile.mkdtemp(prefix='verif_%s_' % prop)
    if not keep: _SCRATCH.append(scratch)
    findings = [f for f in load_findings() if f['property'] == prop]
    results = []; violations = []; engine_errors = []; known_printed = []
    tvs = []
    functions_encoded = {}
    try:
        jobs = []
        hs = []
        for fn in files:
            h = parse_harness(os.path.join(hdir, fn), scratch)
            if h['property'] != prop: raise EngineError('%s: PROPERTY annotation mismatch' % fn)
            # tiers: quick < thorough; 'open' = obligations that were built but have not produced a verdict within any cap tried
            # (kept runnable with --tier open / --only, never part of a registered command)
            obls = [o for o in h['obls'] if o['tier'] == 'quick' or (tier in ('thorough', 'open') and o['tier'] == 'thorough') or (o['tier'] == 'open' and (tier == 'open' or (only and o['name'] in only)))]
            if tier in ('thorough', 'open'):
                # a thorough obligation may supersede a quick one of the same family
                sup = {o.get('supersedes') for o in obls if o.get('supersedes')}
                obls = [o for o in obls if o['name'] not in sup]
            # obligations that pin down the exact deviant behaviour of a recorded (not repaired) finding exist only while it is 'known'
            known_ids = {f['id'] for f in findings if f['status'] == 'known'}
            obls = [o for o in obls if not o.get('only_if_known') or o['only_if_known'] in known_ids]
            if only: obls = [o for o in obls if o['name'] in only]
            if not obls: continue
            hs.append((h, obls))
        if not hs: raise EngineError('no obligations for %s' % prop)

        def prepare(ho):
            h, obls = ho
            d = os.path.join(scratch, h['name']); os.makedirs(d, exist_ok=True)
            t0 = time.time()
            build_ir(h, d)
            fl = translate(h, d, obls)
            native_sources(h, d, obls, h['obls'])
            for o in obls:
                o['_modeldef'] = h.get('modeldef', [])
                kc = sorted({f['class'] for f in findings if f.get('obligation') in (o['name'], o.get('family')) and f['status'] == 'known'})
                o['_known_classes'] = kc
                open(os.path.join(d, 'drv_%s.c' % o['name']), 'w').write(driver_c(o, kc))
            def lo(o):
                o['_unwindset'] = resolve_unwind_fn(o, loops_of(d, o))
                # recursion bounds: {"regex on function name": K} -> --unwindset <function>:K
                for rx, k in o.get('recursion', {}).items():
                    for fn in fl:
                        cn = re.sub(r'[^A-Za-z0-9_]', '_', fn)
                        if re.search(rx, cn): o['_unwindset'].append('%s:%d' % (cn, k))
            with ThreadPoolExecutor(max_workers=8) as ex:
                list(ex.map(lo, obls))
            with ThreadPoolExecutor(max_workers=2) as ex:
                a = ex.submit(build_native, h, d); b = ex.submit(build_gen_native, h, d)
                a.result(); b.result()
            log('[%s] built %s: %d functions encoded, %.1fs' % (prop, h['name'], len(fl), time.time() - t0))
            return d, fl
        with ThreadPoolExecutor(max_workers=min(4, len(hs))) as ex:
            prepared = list(ex.map(prepare, hs))
        # translation validation
        for (h, obls), (d, fl) in zip(hs, prepared):
            functions_encoded[h['name']] = fl
            tv = translation_validation(h, d, obls, seed, int(os.environ.get('VERIF_TV_RANDOM', '64')))
            tv['harness'] = h['name']
            tvs.append(tv)
            if tv['mismatches']:
                engine_errors.append('translation validation mismatch in %s: %s' % (h['name'], tv['detail']))
        # known-finding witnesses: replay natively
        for f in findings:
            if f['status'] != 'known': continue
            for (h, obls), (d, fl) in zip(hs, prepared):
                for o in h['obls']:
                    if f.get('witness_obligation', f.get('obligation')) in (o['name'], o.get('family')) and f.get('witness'):
                        res = run_native_each(os.path.join(d, 'native_real'), ['%s %s' % (o['name'], f['witness'])])
                        if res and (' r=1 ' not in res[0] + ' '):
                            if f['id'] not in known_printed:
                                known_printed.append(f['id'])
                                print('KNOWN-FINDING: property=%s %s [%s witness=%s -> %s]' % (prop, f['what'], f['id'], f['witness'], res[0].split(' ', 1)[1] if ' ' in res[0] else res[0]))
        # solve
        work = []
        for (h, obls), (d, fl) in zip(hs, prepared):
            for o in obls: work.append((h, o, d))
        par = max(1, NCPU // max(1, max(len(o['backends']) for (_, o, _) in work)) // 1)
        par = min(par, int(os.environ.get('VERIF_PAR', '8')))
        def solve(job):
            h, o, d = job
            res = {'obligation': o['name'], 'harness': h['name'], 'desc': o.get('desc', ''), 'bounds': o.get('bounds', ''),
                   'unwind': o['unwind'], 'unwind_fn': o.get('unwind_fn', {}), 'in_bytes': o['in'], 'known_classes_excluded': o['_known_classes']}
            r = run_race(o, d, int(os.environ.get('VERIF_CAP', o['cap_s'])))
            res.update({'backend': r.get('backend'), 'solver_s': r.get('solver_s'), 'symex_s': r.get('symex_s'), 'wall_s': r.get('wall_s'),
                        'vars': r.get('vars'), 'clauses': r.get('clauses'), 'cbmc_properties': r.get('nprops'),
                        'ssa_steps': r.get('ssa_steps'), 'vccs': r.get('vccs'), 'vccs_nontrivial': r.get('vccs_nontrivial')})
            if r['verdict'] is None:
                res['status'] = 'engine_error'; res['witness_reachable'] = False
                res['error'] = ('time-out after %ss' % o['cap_s']) if r.get('timeout') else 'no verdict: ' + json.dumps(r.get('tails'))[-1500:]
                return res
            fails = r['failed']
            for f in fails: f['class'] = classify(f['desc'])
            res['witness_reachable'] = any(f['class'] == 'WITNESS' for f in fails)
            real = [f for f in fails if f['class'] != 'WITNESS']
            if not real:
                if res['witness_reachable']: res['status'] = 'discharged'
                else:
                    res['status'] = 'engine_error'; res['error'] = 'vacuous: the end of the harness is not reachable (witness assertion not violated)'
                return res
            # bound/model limits first: they make everything after them meaningless
            lim = [f for f in real if f['class'] in ('BOUND', 'MODEL', 'UNWIND')]
            if lim:
                # the input that leaves the encoded bound may still expose a real failure: replay it natively before giving up
                for f in (lim + [x for x in real if x not in lim])[:4]:
                    inp = (f.get('inputs') or '').ljust(2 * o['in'], '0')
                    rr = run_native_each(os.path.join(d, 'native_real'), ['%s %s' % (o['name'], inp)])
                    nat = rr[0] if rr else ''
                    f['native'] = nat
                    if (' r=' not in nat) or (' r=0 ' in nat + ' '):
                        res['status'] = 'violation'; res['cex'] = f
                        return res
                res['status'] = 'engine_error'
                res['error'] = 'stated bound / model limit hit: %s (input %s)' % (lim[0]['desc'], lim[0].get('inputs'))
                res['cex'] = lim[0]
                return res
            # replay every distinct counterexample natively; report the first confirmed one
            order = sorted(real, key=lambda f: 0 if f['class'] == 'PROPERTY' else 1)
            res['cex_all'] = order[:6]
            sw = [f for f in real if f['class'] == 'SHARED-WRITE']
            if sw:
                # C19: a store into a mutable module-level object inside the operation window is established by the symbolic
                # execution itself (the store site is in the trace); a data race has no deterministic native replay
                res['status'] = 'violation'; res['cex'] = sw[0]; sw[0]['native'] = 'not replayable natively (sufficient condition for race freedom violated at %s)' % sw[0].get('where')
                return res
            for f in order[:6]:
                inp = (f.get('inputs') or '').ljust(2 * o['in'], '0')
                rr = run_native_each(os.path.join(d, 'native_real'), ['%s %s' % (o['name'], inp)])
                nat = rr[0] if rr else ''
                f['native'] = nat
                if (' r=' not in nat) or (' r=0 ' in nat + ' '):
                    res['status'] = 'violation'; res['cex'] = f
                    return res
            res['status'] = 'unconfirmed'; res['cex'] = order[0]
            return res
        with ThreadPoolExecutor(max_workers=par) as ex:
            results = list(ex.map(solve, work))
    except EngineError as e:
        engine_errors.append(str(e))
    finally:
        if not keep: shutil.rmtree(scratch, ignore_errors=True)
        else: log('scratch kept at', scratch)
    # report
    rdir = os.path.join(tempfile.gettempdir(), 'verif_replays_mutated', prop) if os.environ.get('VERIF_NO_EVIDENCE') else os.path.join(VERIF, 'replays', prop)
    os.makedirs(rdir, exist_ok=True)
    nviol = 0
    for r in results:
        if r['status'] == 'violation':
            nviol += 1
            rp = os.path.join(rdir, '%s.json' % r['obligation'])
            json.dump({'property': prop, 'obligation': r['obligation'], 'harness': r['harness'], 'input_hex': r['cex'].get('inputs'),
                       'violated': r['cex']['desc'], 'where': r['cex'].get('where'), 'native': r['cex'].get('native')}, open(rp, 'w'), indent=1)
            print('VIOLATION property=%s replay=%s' % (prop, rp))
            print('  obligation=%s class=%s violated="%s" input=%s native=%s' % (r['obligation'], r['cex']['class'], r['cex']['desc'][:80], r['cex'].get('inputs'), r['cex'].get('native')))
        elif r['status'] == 'unconfirmed':
            engine_errors.append('UNCONFIRMED counterexample for %s: %s' % (r['obligation'], json.dumps(r['cex'])))
        elif r['status'] == 'engine_error':
            engine_errors.append('%s: %s' % (r['obligation'], r.get('error')))
    wall = time.time() - t_start
    disch = sum(1 for r in results if r['status'] == 'discharged')
    ev = {
        'property_id': prop, 'tier': tier if tier in ('quick', 'thorough') else 'thorough', 'seed': seed, 'level': 'model_checking',
        'coverage': {
            'obligations': len(results), 'discharged': disch,
            # model-checking keys, all measured on this run from CBMC's statistics of the winning back end of each obligation
            'states': max(1, sum((r.get('ssa_steps') or 0) for r in results)),
            'transitions': max(1, sum((r.get('vccs') or 0) for r in results)),
            'traces_validated_against_impl': sum(t['inputs'] for t in tvs) + sum(1 for r in results if (r.get('cex') or {}).get('native')),
            'explanation': 'states = SSA steps of the symbolic execution summed over the obligations (each step is one symbolic program state standing for '
                           'all inputs within the bound); transitions = verification conditions generated from them (guarded assertion instances handed to '
                           'the solver); traces_validated_against_impl = inputs (repo test vectors + pseudo-random) executed on BOTH the native g++ build of the '
                           'real code and the native build of the generated C with identical results, plus counterexamples replayed on the real build',
            'evaluations': sum((r.get('cbmc_properties') or 1) for r in results) + sum(t['inputs'] for t in tvs),
            'distinct_nontrivial': sum(1 for r in results if r.get('witness_reachable')),
            'rule': 'one evaluation = one property decided by the solver inside an obligation (the harness PROPERTY assertion, the WITNESS assertion, '
                    'every memory-safety / UB / unwinding assertion CBMC instruments on the encoded real code) or one translation-validation input executed on both builds; '
                    'an obligation counts as distinct non-trivial iff its witness assertion (assert(0) at the end of the harness) was shown reachable by the solver',
            'samples': [{k: v for k, v in r.items() if k not in ('error',)} for r in results][:60],
            'functions_encoded': functions_encoded,
            'translation_validation': [{k: v for k, v in t.items() if k != 'detail'} for t in tvs],
            'solver_seconds_total': round(sum((r.get('solver_s') or 0) for r in results), 2),
            'checker_cmd': 'clang++-14 -O1 -emit-llvm | engine/ir2c.py | cbmc 6.11 --unwind N --unwinding-assertions --stop-on-fail --trace',
            'known_findings_reported': known_printed,
            'engine_errors': engine_errors,
            'exhaustive': False,
        },
        'assumptions': ASSUMPTIONS,
        'wall_s': round(wall, 2),
        'violations': nviol,
    }
    if os.environ.get('VERIF_NO_EVIDENCE'):
        # runs against a deliberately modified /repo (bin/try_mutation, bin/try_revert) must not replace the evidence of the unchanged tree
        ev_path = os.path.join(tempfile.gettempdir(), 'verif_evidence_%s_mutated.json' % prop)
    else:
        os.makedirs(os.path.join(VERIF, 'evidence'), exist_ok=True)
        ev_path = os.path.join(VERIF, 'evidence', prop + '.json')
    json.dump(ev, open(ev_path, 'w'), indent=1)
    for r in results:
        log('[%s] %-40s %-12s backend=%s wall=%ss %s' % (prop, r['obligation'], r['status'], r.get('backend'), r.get('wall_s'), (r.get('error') or '')[:300]))
    for e in engine_errors: log('ENGINE-ERROR:', e[:3000])
    print('%s: %d/%d obligations discharged, %d violation(s), %d engine error(s), %.0fs' % (prop, disch, len(results), nviol, len(engine_errors), wall))
    if nviol: return 1
    if engine_errors: return 2
    return 0

ASSUMPTIONS = [
    'bounded claim: holds for all inputs within the per-obligation bounds listed in coverage.samples[*].bounds / in_bytes / unwind; nothing is claimed outside',
    'semantics of the source = clang++-14 -O1 LLVM IR (x86-64 LE), translated by engine/ir2c.py; translation validated per run against a native g++ build on test vectors and random inputs',
    'binary-only externals replaced by the models in engine/models/verif_models.h (operator new never fails unless stated, std::string out-of-line members, std exception ctors, iostream/rb-tree models where used)',
    'cbmc 6.11.0 and its SAT back ends (minisat2, cadical, kissat) are trusted',
    'nsw/nuw/inbounds poison is treated as wrapping; source-level UB is caught through the explicit checks listed (division, float->int range, unreachable, ubsan traps when enabled) and cbmc pointer/bounds checks',
]

def main():
    if len(sys.argv) < 3:
        print(__doc__); return 2
    cmd, prop = sys.argv[1], sys.argv[2]
    args = sys.argv[3:]
    tier = os.environ.get('VERIF_TIER', 'quick')
    only = None; keep = False
    i = 0
    while i < len(args):
        if args[i] == '--tier': tier = args[i + 1]; i += 2
        elif args[i] == '--only': only = set(args[i + 1].split(',')); i += 2
        elif args[i] == '--keep': keep = True; i += 1
        else: i += 1
    seed = int(os.environ.get('VERIF_SEED', '0') or 0)
    signal.signal(signal.SIGTERM, _on_term); signal.signal(signal.SIGINT, _on_term)
    if cmd == 'check':
        return check(prop, tier, only, keep, seed)
    if cmd == 'replay':
        rp = json.load(open(args[0]))
        scratch = tempfile.mkdtemp(prefix='verif_replay_')
        try:
            hdir = os.path.join(VERIF, 'harness')
            for fn in sorted(os.listdir(hdir)):
                if fn.startswith(rp['harness'] + '.'):
                    h = parse_harness(os.path.join(hdir, fn), scratch)
                    obls = [o for o in h['obls'] if o['name'] == rp['obligation']]
                    d = os.path.join(scratch, 'r'); os.makedirs(d)
                    native_sources(h, d, obls)
                    build_native(h, d)
                    res = run_native_each(os.path.join(d, 'native_real'), ['%s %s' % (rp['obligation'], rp['input_hex'])])
                    print(res[0] if res else 'no result')
                    ok = res and ' r=1 ' in res[0] + ' '
                    if not ok: print('VIOLATION property=%s replay=%s' % (rp['property'], args[0]))
                    return 0 if ok else 1
        finally:
            shutil.rmtree(scratch, ignore_errors=True)
        return 2
    return 2

if __name__ == '__main__':
    sys.exit(main())
