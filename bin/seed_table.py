#!/usr/bin/env python3
"""prints the markdown table of seeded mutations (seeded/*/meta.json) for DESIGN.md"""
import json, glob, os, re
V = os.path.dirname(os.path.dirname(os.path.abspath(__file__)))
print('| seed | breaks | change (file) | needs to manifest | caught by (quick tier) |')
print('|---|---|---|---|---|')
for d in sorted(glob.glob(os.path.join(V, 'seeded', 'C*-m*'))):
    m = json.load(open(os.path.join(d, 'meta.json')))
    title = open(os.path.join(d, 'notes.md')).readline().strip().lstrip('# ')
    title = re.sub(r'^C\d\d / m\d - ', '', title)
    cb = m.get('caught_by') or '**not caught**'
    # compress obligation lists
    parts = cb.split(', ')
    if len(parts) > 4: cb = ', '.join(parts[:4]) + ' (+%d more)' % (len(parts) - 4)
    print('| %s | %s | %s (%s) | %s | %s |' % (m['id'], m['breaks_property'], title, ', '.join(os.path.basename(f) for f in m['files_changed']), m['needs_to_manifest'], cb))
