#!/bin/sh
# runs the quick (or $1) tier of every claimed check sequentially; summary in /tmp/verif_all_summary.log
T=${1:-quick}
: > /tmp/verif_all_summary.log
for p in $(python3 -c "import json;print(' '.join(c['property_id'] for c in json.load(open('/verif/MANIFEST.json'))['checks']))"); do
  S=$(date +%s); /verif/bin/check $p --tier $T > /tmp/verif_all_$p.log 2>&1; RC=$?
  echo "$p rc=$RC $(( $(date +%s) - S ))s $(tail -1 /tmp/verif_all_$p.log)" >> /tmp/verif_all_summary.log
done
