#!/usr/bin/env python3
"""Regenerates /verif/MANIFEST.json from the table below (claimed checks) + properties.jsonl (everything else -> not_applicable)."""
import json, os, subprocess
V = os.path.dirname(os.path.dirname(os.path.abspath(__file__)))
TECH = "bounded symbolic execution of the real code (clang-14 LLVM IR of the repo's functions translated to C by engine/ir2c.py) decided by CBMC 6.11 with SAT back ends; counterexamples replayed on a native g++ ASan/UBSan build"
NOTE = "semantics = clang++-14 -O1 IR (x86-64); engine/ir2c.py validated per run against the native build (test vectors + random inputs); models of binary-only externals in engine/models; CBMC/minisat/kissat/cadical trusted; claim limited to the bounds recorded per obligation in the evidence file"
CLAIMS = {
 "C04": "For every ordered pair of arithmetic types and ALL source values (full width): Convert::Detail::To yields the exact value, the nearest representable one, or the documented exception with the target untouched. MsgPack carrier of numbers: see C07 evidence (every integer family/width into every arithmetic target, both policies).",
 "C06": "MsgPack writers (memory and stream class) against a reference transcribed from the specification: every scalar overload over all values, every length header over all size_t, timestamp layouts, compactness, and byte-identical memory/stream output. time_point/duration -> timestamp for |count| < 2^24 (quick) / 2^31 (thorough) where a division by constant is involved, full 64-bit otherwise.",
 "C07": "CMsgPackStringReader on ALL byte strings up to 9 bytes (16 for the timestamp family) versus an independent reference decoder, for 13 scalar targets, 4 length-header readers and timestamps, both policies symbolic: value / policy outcome / parsing error / exact position.",
 "C11": "All 1,112,064^2 ordered pairs of Unicode scalar values (k<=2) through Transcode (9 width pairs), the LE/BE encoder and decoder wrappers and Convert::Detail::To(string_view,string&): exact standard encoding form, zero errors, iterator at end, prefix preserved, round trip, policy-independent.",
 "C12": "Arbitrary (ill-formed included) code-unit sequences up to 4 UTF-8 bytes / 3 UTF-16 units / 2 UTF-32 units (thorough: 5/4/3) through every different-width decoder/encoder incl. LE/BE wrappers: ThrowError fails iff ill-formed at the right position; Skip yields well-formed output, count == marks, prefix and (for structurally complete errors) suffix preserved.",
 "C10": "Memory vs stream: (1) CBinaryStreamReader, the only path by which the MsgPack stream reader touches the stream, refines a cursor over the byte sequence: ONE operation with symbolic arguments from an ARBITRARY state satisfying the representation invariant (inductive step: every history, every alignment against the chunk boundary, compaction, refill, seek-back after EOF), chunk size 8 via the guarded hook, stream <= 20 bytes; (2) MsgPack memory writer bytes == stream writer bytes for every value / every string length 0..300. CSV/JSON/XML stream paths and the reader-pair differential are outside (DESIGN.md).",
 "C14": "Calendar correctness of printing (fields handed to snprintf == proleptic Gregorian date by an independent day-count reference) for |z| < 2^16 days (thorough 2^20), time-of-day split, parse of rendered text to the exact instant for year windows (thorough -9999..9999), PrintIsoUtc buffer safety for EVERY int64 year, binary timestamp round trip; text round trip and durations in the thorough tier.",
 "C15": "SafeDurationCast / SafeAddDuration exact-or-out_of_range over full 64-bit ranges (bounded where a division by constant is involved), ParseSecondFractions (<= 3 chars quick), date-time grammar on 20-character buffers with arbitrary non-separator characters (20xx quick), parse value vs independent calendar reference for year windows incl. negative years.",
 "C16": "Integer print->parse identity for ALL 8/16-bit values (32/64-bit: |v| < 2^20 quick), output shape; numeric parser and bool parser versus reference parsers on EVERY string of length <= 4 (char) with following buffer bytes symbolic; wide-character variants with arbitrary code units in the thorough tier. Floating-point text exactness is outside (libstdc++ binary-only to_chars/from_chars).",
}
NA = {
 "C08": "conformance of rendered JSON/XML text and acceptance of arbitrary standard renderings is decided inside RapidJSON's Writer/Reader and pugixml (pugixml exists only as a shared object here: no source/IR to execute symbolically; RapidJSON text paths are beyond any useful solver bound); the repository's share is option plumbing (DESIGN.md section 7)",
}
props = [json.loads(l) for l in open(os.path.join(V, 'properties.jsonl'))]
have = {p for p in CLAIMS if any(f.startswith(p + '_') for f in os.listdir(os.path.join(V, 'harness')))}
hooks_commits = []
man = {"version": 1, "setup_cmd": "true",
       "hooks": {"guard": "BITSERIALIZER_VERIF", "enable": "checks compile /repo sources themselves (clang++-14 to LLVM IR, g++ natively) with -DBITSERIALIZER_VERIF=1; /repo/_build is not used", "baseline_off_cmd": "cmake --build /repo/_build -j8 && ctest --test-dir /repo/_build -j8 --timeout 900", "source_commits": hooks_commits, "add_only": True},
       "engines": [{"name": "ir2c+cbmc", "path": "engine/", "serves_properties": sorted(have), "kind_free_text": "real C++ -> clang++-14 -O1 LLVM IR (+ explicit ubsan trap checks) -> own IR-to-C translator -> CBMC 6.11 bounded model checking (SAT: minisat2 / kissat / cadical); native replay of every counterexample; per-run translation validation"}],
       "checks": [], "not_applicable": [],
       "notes": "known_findings.json lists genuine defects that were recorded rather than repaired (status known) and the ones repaired by fix: commits in /repo (status fixed). DESIGN.md documents approach, bounds, trusted base, and which seeded mutations each check catches."}
for p in props:
    pid = p['id']
    if pid in have:
        man["checks"].append({"property_id": pid, "quick_cmd": "bin/check %s --tier quick" % pid, "thorough_cmd": "bin/check %s --tier thorough" % pid,
                              "evidence_file": "evidence/%s.json" % pid, "replay_cmd_template": "bin/check replay %s {path}" % pid, "engine": "ir2c+cbmc",
                              "level_claimed": {"category": "model_checking", "text": CLAIMS[pid], "design_ref": "DESIGN.md section 6, " + pid},
                              "level_note": NOTE, "technique": TECH})
    else:
        man["not_applicable"].append({"property_id": pid, "reason": NA.get(pid, "check not built yet in this session (planned in DESIGN.md section 6/8); not claimed until its obligations exist and pass")})
json.dump(man, open(os.path.join(V, 'MANIFEST.json'), 'w'), indent=1)
print('claimed:', sorted(have))
